//! C09 correspondence + oracle runner: feeds every decoder entry point of the wallet with
//! random bytes, grammar-generated near-valid inputs and single-field mutations / truncations /
//! extensions of valid encodings, each call under `catch_unwind` with a timer and an allocation
//! meter. One JSON line per case: the canonicalised result of the implementation (compared with
//! the Coq models Codec*.v by checks/c09.py), the external-validity tables the model needs
//! (which 33/32-byte windows of the input are valid secp256k1 / ed25519 keys, which
//! length-prefixed windows are slatepack addresses, what serde_json makes of the JSON fallback),
//! and the verdict of the property oracle: no panic, terminates quickly, bounded allocation.
//!
//! decoders (field "d"):
//!  1 SlatepackArmor::decode                      (modelled: CodecArmor.armor_decode)
//!  2 byte_ser::from_bytes::<SlatepackBin>         (modelled: CodecSlatepack.dec_slatepack_bin)
//!  4 byte_ser::from_bytes::<SlateV4Bin>           (modelled: CodecSlate.dec_v4bin)
//!  5 Slatepacker::deser_slatepack(.., false)      (modelled: CodecSlatepack.deser_slatepack; p = chain)
//!  6 Slatepack::try_decrypt_payload on age(plaintext) (modelled: CodecSlatepack.post_decrypt)
//!  7 ser.rs hex/base64 -> fixed size helpers through JSON (modelled: CodecSlate.helper; p = kind)
//!  8 serde_json VersionedSlate (+ Slate::upgrade)  9 serde_json Slatepack   10 SlatepackAddress::try_from
//! 11 OnionV3Address::try_from   12 PaymentProof JSON   13 EncryptedBody JSON + decrypt
//! 14 Slatepacker::get_slate     15 deser_slatepack(.., true) with the wallet key
//! 16 helpers on raw JSON values (text layer included)   17 StoredProofInfo JSON
//! 18 api::ECDHPubkey JSON   19 api::Token JSON   20 api::Ed25519SecretKey JSON
//! 21 BlockFees JSON (build_coinbase on the foreign listener)
//!
//! result: [0, value..] | [1] error | [2] panic
#[path = "codec_common/mod.rs"]
mod common;
use common::*;

use serde_derive::Deserialize;
use serde_json::{json, Value};
use std::alloc::{GlobalAlloc, Layout, System};
use std::cell::Cell;
use std::convert::TryFrom;
use vharness::libwallet::dalek_ser;
use vharness::libwallet::slate_versions::v4::SlateV4;
use vharness::libwallet::slate_versions::v4_bin::SlateV4Bin;
use vharness::libwallet::{
	PaymentProof, Slate, Slatepack, SlatepackAddress, SlatepackArmor, SlatepackBin, Slatepacker,
	SlatepackerArgs, StoredProofInfo, VersionedSlate,
};
use vharness::prng::{seed_from_env, Prng};
use vharness::*;

// ------------------------------------------------------------------ allocation meter
struct Meter;
thread_local! {
	static PEAK: Cell<usize> = const { Cell::new(0) };
	static T0: Cell<Option<std::time::Instant>> = const { Cell::new(None) };
}
/// start of the measured region (after the harness's own preparation, e.g. age encryption)
fn mark() {
	PEAK.with(|p| p.set(0));
	T0.with(|t| t.set(Some(std::time::Instant::now())));
}
unsafe impl GlobalAlloc for Meter {
	unsafe fn alloc(&self, l: Layout) -> *mut u8 {
		let _ = PEAK.try_with(|p| {
			if l.size() > p.get() {
				p.set(l.size())
			}
		});
		System.alloc(l)
	}
	unsafe fn dealloc(&self, p: *mut u8, l: Layout) {
		System.dealloc(p, l)
	}
	unsafe fn realloc(&self, ptr: *mut u8, l: Layout, new_size: usize) -> *mut u8 {
		let _ = PEAK.try_with(|p| {
			if new_size > p.get() {
				p.set(new_size)
			}
		});
		System.realloc(ptr, l, new_size)
	}
}
#[global_allocator]
static GLOBAL: Meter = Meter;

// ------------------------------------------------------------------ cases
#[derive(Clone, Debug)]
struct Case {
	d: u64,
	p: u64,
	input: Vec<u8>,
	stream: &'static str,
}
fn case_json(c: &Case) -> Value {
	json!({"d": c.d, "p": c.p, "in": hex(&c.input), "s": c.stream})
}
fn case_from_json(v: &Value) -> Case {
	Case {
		d: v["d"].as_u64().unwrap(),
		p: v["p"].as_u64().unwrap_or(0),
		input: unhex(v["in"].as_str().unwrap()),
		stream: "replay",
	}
}

struct Row {
	cls: u64,
	res: Option<Vec<u64>>,
	ext: Value,
	msg: String,
	us: u128,
	peak: usize,
}

fn set_chain(p: u64) {
	use grin_core::global::{set_local_chain_type, ChainTypes};
	set_local_chain_type(if p == 1 {
		ChainTypes::Mainnet
	} else {
		ChainTypes::AutomatedTesting
	});
}

// helper kinds --------------------------------------------------------------
#[derive(Deserialize)]
struct H1 {
	#[serde(with = "dalek_ser::dalek_xpubkey_serde")]
	v: x25519_dalek::PublicKey,
}
#[derive(Deserialize)]
struct H2 {
	#[serde(with = "dalek_ser::option_dalek_pubkey_base64")]
	v: Option<ed25519_dalek::PublicKey>,
}
#[derive(Deserialize)]
struct H3 {
	#[serde(with = "dalek_ser::option_dalek_pubkey_serde")]
	v: Option<ed25519_dalek::PublicKey>,
}
#[derive(Deserialize)]
struct H4 {
	#[serde(with = "dalek_ser::option_xdalek_pubkey_serde")]
	v: Option<x25519_dalek::PublicKey>,
}
#[derive(Deserialize)]
struct H5 {
	#[serde(with = "dalek_ser::dalek_sig_serde")]
	v: ed25519_dalek::Signature,
}
#[derive(Deserialize)]
struct H6 {
	#[serde(with = "dalek_ser::option_dalek_sig_serde")]
	v: Option<ed25519_dalek::Signature>,
}
#[derive(Deserialize)]
struct H7 {
	#[serde(with = "dalek_ser::option_dalek_sig_base64")]
	v: Option<ed25519_dalek::Signature>,
}
#[derive(Deserialize)]
struct H8 {
	#[serde(with = "dalek_ser::uuid_base64")]
	v: uuid::Uuid,
}
#[derive(Deserialize)]
struct H9 {
	#[serde(with = "dalek_ser::dalek_pubkey_serde")]
	v: ed25519_dalek::PublicKey,
}
#[derive(Deserialize)]
struct H10 {
	#[serde(with = "dalek_ser::dalek_pubkey_base64")]
	v: ed25519_dalek::PublicKey,
}
#[derive(Deserialize)]
struct H11 {
	#[serde(with = "dalek_ser::dalek_seckey_serde")]
	v: ed25519_dalek::SecretKey,
}
#[derive(Deserialize)]
struct H12 {
	#[serde(deserialize_with = "dalek_ser::bytes_from_base64")]
	v: Vec<u8>,
}
#[derive(Deserialize)]
struct H13 {
	#[serde(with = "dalek_ser::option_rangeproof_hex")]
	v: Option<grin_util::secp::pedersen::RangeProof>,
}
#[derive(Deserialize)]
struct H14 {
	#[serde(with = "dalek_ser::ov3_serde")]
	v: grin_wallet_util::OnionV3Address,
}
#[derive(Deserialize)]
struct H15 {
	#[serde(with = "dalek_ser::option_ov3_serde")]
	v: Option<grin_wallet_util::OnionV3Address>,
}
pub const N_HELPERS: u64 = 15;
/// kinds 1..=13 take a hex/base64 string and are modelled after the text layer
pub const N_FIELD_HELPERS: u64 = 13;
/// hex (false) or base64 (true) text layer of helper kind k
fn helper_is_b64(k: u64) -> bool {
	matches!(k, 2 | 7 | 8 | 10 | 12)
}

/// Runs helper `k` on the JSON document {"v": val}; Ok(bytes of the decoded value; [] for None)
fn run_helper(k: u64, val: &Value) -> Result<Vec<u8>, String> {
	let doc = json!({ "v": val }).to_string();
	macro_rules! go {
		($t:ty, $f:expr) => {
			serde_json::from_str::<$t>(&doc)
				.map(|h| $f(h))
				.map_err(|e| e.to_string())
		};
	}
	match k {
		1 => go!(H1, |h: H1| h.v.as_bytes().to_vec()),
		2 => go!(H2, |h: H2| h.v.map(|k| k.to_bytes().to_vec()).unwrap_or_default()),
		3 => go!(H3, |h: H3| h.v.map(|k| k.to_bytes().to_vec()).unwrap_or_default()),
		4 => go!(H4, |h: H4| h.v.map(|k| k.as_bytes().to_vec()).unwrap_or_default()),
		5 => go!(H5, |h: H5| h.v.to_bytes().to_vec()),
		6 => go!(H6, |h: H6| h.v.map(|k| k.to_bytes().to_vec()).unwrap_or_default()),
		7 => go!(H7, |h: H7| h.v.map(|k| k.to_bytes().to_vec()).unwrap_or_default()),
		8 => go!(H8, |h: H8| h.v.as_bytes().to_vec()),
		9 => go!(H9, |h: H9| h.v.to_bytes().to_vec()),
		10 => go!(H10, |h: H10| h.v.to_bytes().to_vec()),
		11 => go!(H11, |h: H11| h.v.to_bytes().to_vec()),
		12 => go!(H12, |h: H12| h.v),
		13 => go!(H13, |h: H13| h
			.v
			.map(|p| p.proof[..p.plen.min(675)].to_vec())
			.unwrap_or_default()),
		14 => go!(H14, |h: H14| h.v.as_bytes().to_vec()),
		_ => go!(H15, |h: H15| h.v.map(|a| a.as_bytes().to_vec()).unwrap_or_default()),
	}
}

fn ok_res(v: Vec<u64>) -> Vec<u64> {
	let mut r = vec![0];
	r.extend(v);
	r
}

fn secp_key() -> grin_util::secp::key::SecretKey {
	let secp_inst = grin_util::static_secp_instance();
	let secp = secp_inst.lock();
	grin_util::secp::key::SecretKey::from_slice(&secp, &[1u8; 32]).unwrap()
}

/// Calls the real decoder. Ok(Ok(canonical value)) / Ok(Err(message)) / Err(panic message)
fn call(c: &Case, pools: &Pools) -> Result<Result<Vec<u64>, String>, String> {
	let bs = &c.input;
	match c.d {
		1 => guarded(|| {
			SlatepackArmor::decode(bs)
				.map(|v| {
					let mut o = vec![];
					cbytes(&mut o, &v);
					o
				})
				.map_err(|e| e.to_string())
		}),
		2 => guarded(|| {
			grin_wallet_util::byte_ser::from_bytes::<SlatepackBin>(bs)
				.map(|s| canon_sp(&s.0))
				.map_err(|e| e.to_string())
		}),
		4 => guarded(|| {
			grin_wallet_util::byte_ser::from_bytes::<SlateV4Bin>(bs)
				.map(|s| canon_v4(&s.0))
				.map_err(|e| e.to_string())
		}),
		5 | 15 => {
			set_chain(c.p);
			let key = pools.my_key();
			let r = guarded(|| {
				let packer = Slatepacker::new(SlatepackerArgs {
					sender: None,
					recipients: vec![],
					dec_key: if c.d == 15 { Some(&key) } else { None },
				});
				packer
					.deser_slatepack(bs, c.d == 15)
					.map(|s| canon_sp(&s))
					.map_err(|e| e.to_string())
			});
			set_chain(0);
			r
		}
		6 => {
			// the plaintext is age-encrypted to the wallet's own address (p = 0) or wrapped with a
			// passphrase header (p = 1); the wallet then decrypts and parses it
			let payload = if c.p == 1 {
				age_encrypt_passphrase(bs)
			} else {
				age_encrypt_to(&pools.my_addr, bs)
			};
			let key = pools.my_key();
			mark();
			guarded(|| {
				let mut sp = Slatepack::default();
				sp.mode = 1;
				sp.payload = payload;
				sp.try_decrypt_payload(Some(&key))
					.map(|_| canon_sp_meta(&sp))
					.map_err(|e| e.to_string())
			})
		}
		7 => {
			let text = if helper_is_b64(c.p) {
				base64::encode(bs)
			} else {
				hex(bs)
			};
			guarded(|| {
				run_helper(c.p, &Value::String(text)).map(|v| {
					let mut o = vec![];
					cbytes(&mut o, &v);
					o
				})
			})
		}
		16 => {
			// raw JSON value text for helper p
			let val: Value = match serde_json::from_slice(bs) {
				Ok(v) => v,
				Err(_) => Value::String(String::from_utf8_lossy(bs).to_string()),
			};
			guarded(|| run_helper(c.p, &val).map(|_| vec![]))
		}
		8 => guarded(|| {
			let s = String::from_utf8_lossy(bs).to_string();
			serde_json::from_str::<VersionedSlate>(&s)
				.map_err(|e| e.to_string())
				.and_then(|v| Slate::upgrade(v).map_err(|e| e.to_string()))
				.map(|sl| {
					// re-encode (what the wallet does when it answers)
					let _ = serde_json::to_string(&sl);
					vec![]
				})
		}),
		9 => guarded(|| {
			let s = String::from_utf8_lossy(bs).to_string();
			serde_json::from_str::<Slatepack>(&s)
				.map(|sp| canon_sp(&sp))
				.map_err(|e| e.to_string())
		}),
		10 => guarded(|| {
			let s = String::from_utf8_lossy(bs).to_string();
			SlatepackAddress::try_from(s.as_str())
				.map(|a| {
					let mut o = vec![];
					cbytes(&mut o, addr_string(&a).as_bytes());
					o
				})
				.map_err(|e| e.to_string())
		}),
		11 => guarded(|| {
			let s = String::from_utf8_lossy(bs).to_string();
			grin_wallet_util::OnionV3Address::try_from(s.as_str())
				.map(|a| a.as_bytes().iter().map(|x| *x as u64).collect())
				.map_err(|e| format!("{:?}", e))
		}),
		12 => guarded(|| {
			let s = String::from_utf8_lossy(bs).to_string();
			serde_json::from_str::<PaymentProof>(&s)
				.map(|_| vec![])
				.map_err(|e| e.to_string())
		}),
		13 => {
			let key = secp_key();
			guarded(|| {
				let s = String::from_utf8_lossy(bs).to_string();
				serde_json::from_str::<vharness::api::EncryptedRequest>(&s)
					.map_err(|e| e.to_string())
					.and_then(|b| b.decrypt(&key).map_err(|e| e.to_string()))
					.map(|_| vec![])
			})
		}
		14 => guarded(|| {
			let packer = Slatepacker::new(SlatepackerArgs {
				sender: None,
				recipients: vec![],
				dec_key: None,
			});
			let mut sp = Slatepack::default();
			sp.payload = bs.clone();
			packer
				.get_slate(&sp)
				.map(|sl| canon_v4(&SlateV4::from(&sl)))
				.map_err(|e| e.to_string())
		}),
		17 => guarded(|| {
			let s = String::from_utf8_lossy(bs).to_string();
			serde_json::from_str::<StoredProofInfo>(&s)
				.map(|_| vec![])
				.map_err(|e| e.to_string())
		}),
		// JSON-RPC parameter types of the owner listener: ECDH public key of init_secure_api,
		// the keychain-mask token, an ed25519 secret key
		18 => guarded(|| {
			let s = String::from_utf8_lossy(bs).to_string();
			serde_json::from_str::<vharness::api::ECDHPubkey>(&s)
				.map(|_| vec![])
				.map_err(|e| e.to_string())
		}),
		19 => guarded(|| {
			let s = String::from_utf8_lossy(bs).to_string();
			serde_json::from_str::<vharness::api::Token>(&s)
				.map(|_| vec![])
				.map_err(|e| e.to_string())
		}),
		20 => guarded(|| {
			let s = String::from_utf8_lossy(bs).to_string();
			serde_json::from_str::<vharness::api::Ed25519SecretKey>(&s)
				.map(|_| vec![])
				.map_err(|e| e.to_string())
		}),
		// JSON-RPC parameter of build_coinbase on the (unauthenticated) foreign listener
		21 => guarded(|| {
			let s = String::from_utf8_lossy(bs).to_string();
			serde_json::from_str::<vharness::libwallet::BlockFees>(&s)
				.map(|_| vec![])
				.map_err(|e| e.to_string())
		}),
		_ => Ok(Err("unknown decoder".into())),
	}
}

fn ext_tables(c: &Case, pools: &Pools) -> Value {
	let bs = &c.input;
	match c.d {
		4 => json!({"pk": mask_to_dec(&pk_mask(bs)), "ed": mask_to_dec(&ed_mask(bs))}),
		2 | 6 => {
			let t: Vec<Value> = addr_table(bs)
				.iter()
				.map(|(r, c)| json!([hex(r), hex(c)]))
				.collect();
			json!({ "addrs": t })
		}
		5 => {
			// JSON fallback answers for the two byte strings the dispatcher can hand to
			// serde_json: the input itself, and the armor payload if the armor decodes
			let mut queries: Vec<Vec<u8>> = vec![bs.clone()];
			if let Ok(Ok(inner)) = guarded(|| SlatepackArmor::decode(bs)) {
				queries.push(inner);
			}
			let mut tbl = vec![];
			let mut addrs: Vec<(Vec<u8>, Vec<u8>)> = vec![];
			for q in queries.iter() {
				let ans = guarded(|| {
					String::from_utf8(q.clone())
						.ok()
						.and_then(|s| serde_json::from_str::<Slatepack>(&s).ok())
						.map(|sp| canon_sp(&sp))
				});
				let a = match ans {
					Ok(Some(v)) => json!(v),
					Ok(None) => Value::Null,
					Err(_) => json!("panic"),
				};
				tbl.push(json!([hex(q), a]));
				for e in addr_table(q) {
					if !addrs.iter().any(|x| x.0 == e.0) {
						addrs.push(e);
					}
				}
			}
			let t: Vec<Value> = addrs.iter().map(|(r, c)| json!([hex(r), hex(c)])).collect();
			json!({"json": tbl, "addrs": t})
		}
		7 => {
			let edv = bs.len() >= 32 && ed25519_dalek::PublicKey::from_bytes(&bs[0..32]).is_ok();
			let _ = pools;
			json!({ "edv": edv })
		}
		_ => Value::Null,
	}
}

fn run_case(c: &Case, pools: &Pools) -> Row {
	let ext = ext_tables(c, pools);
	mark();
	let r = call(c, pools);
	let us = T0.with(|t| t.get()).unwrap().elapsed().as_micros();
	let peak = PEAK.with(|p| p.get());
	let modelled = matches!(c.d, 1 | 2 | 4 | 5 | 6 | 7);
	match r {
		Err(m) => Row {
			cls: 2,
			res: Some(vec![2]),
			ext,
			msg: m,
			us,
			peak,
		},
		Ok(Err(m)) => Row {
			cls: 1,
			res: Some(vec![1]),
			ext,
			msg: m,
			us,
			peak,
		},
		Ok(Ok(v)) => Row {
			cls: 0,
			res: if modelled { Some(ok_res(v)) } else { Some(vec![0]) },
			ext,
			msg: String::new(),
			us,
			peak,
		},
	}
}

fn oracle(c: &Case, r: &Row) -> Vec<String> {
	let mut f = vec![];
	if r.cls == 2 {
		f.push(format!("panic: {}", r.msg.chars().take(160).collect::<String>()));
	}
	// generous: 2 s per call (the quadratic base58 layer on 8 kB stays below 10 ms)
	if r.us > 2_000_000 {
		f.push(format!("slow: {} us for {} input bytes", r.us, c.input.len()));
	}
	// largest single allocation request: linear in the input (age/scrypt work buffers excluded by
	// the constant), never the attacker-chosen 64-bit length
	let cap = 64 * c.input.len() + (64 << 20);
	if r.peak > cap {
		f.push(format!("allocation of {} bytes for {} input bytes", r.peak, c.input.len()));
	}
	f
}

// ------------------------------------------------------------------ generators

/// random bytes of a random length in lo..=hi
fn rb(p: &mut Prng, lo: u64, hi: u64) -> Vec<u8> {
	let n = p.range(lo, hi) as usize;
	p.bytes(n)
}

fn rand_len(p: &mut Prng) -> usize {
	match p.below(20) {
		0 => 0,
		1 => 1,
		2 => p.range(2, 4) as usize,
		3..=9 => p.range(5, 60) as usize,
		10..=16 => p.range(61, 300) as usize,
		_ => p.range(301, 1200) as usize,
	}
}

fn valid_v4(p: &mut Prng, pools: &Pools) -> SlateV4 {
	gen_v4(
		p,
		pools,
		&GenOpt {
			wild: false,
			max_sigs: 4,
			max_coms: 4,
			proof_den: 6,
		},
	)
}
fn v4_bytes(v: &SlateV4) -> Vec<u8> {
	grin_wallet_util::byte_ser::to_bytes(&SlateV4Bin(v.clone())).unwrap()
}
fn valid_sp(p: &mut Prng, pools: &Pools) -> Slatepack {
	let mut sp = Slatepack::default();
	if p.chance(1, 2) {
		sp.sender = Some(p.pick(&pools.addrs).clone());
	}
	if p.chance(1, 8) {
		sp.slatepack.major = p.below(4) as u8;
		sp.slatepack.minor = p.below(256) as u8;
	}
	sp.mode = if p.chance(1, 5) { 1 } else { 0 };
	sp.payload = match p.below(4) {
		0 => rb(p, 0, 40 - 1),
		1 => v4_bytes(&valid_v4(p, pools)),
		2 => vec![],
		_ => rb(p, 40, 200),
	};
	if sp.payload.len() > 400 {
		sp.payload.truncate(400);
	}
	sp
}
fn sp_bytes(sp: &Slatepack) -> Vec<u8> {
	grin_wallet_util::byte_ser::to_bytes(&SlatepackBin(sp.clone())).unwrap()
}

/// all single-position mutations / truncations / extensions of a valid encoding
/// (every offset when short, a sample otherwise)
fn mutate_bytes(p: &mut Prng, b: &[u8], budget: usize, out: &mut Vec<Vec<u8>>) {
	let n = b.len();
	let mut cand: Vec<Vec<u8>> = vec![];
	// truncations
	for k in 0..n {
		cand.push(b[..k].to_vec());
	}
	// extensions
	for e in [1usize, 2, 33, 100].iter() {
		let mut v = b.to_vec();
		v.extend(p.bytes(*e));
		cand.push(v);
	}
	for i in 0..n {
		for m in 0..6 {
			let mut v = b.to_vec();
			match m {
				0 => v[i] = 0,
				1 => v[i] = 0xff,
				2 => v[i] ^= 1,
				3 => v[i] = v[i].wrapping_add(1),
				4 => v[i] = v[i].wrapping_sub(1),
				_ => v[i] ^= 0x80,
			}
			if v != b {
				cand.push(v);
			}
		}
		// delete / insert
		let mut v = b.to_vec();
		v.remove(i);
		cand.push(v);
		let mut v = b.to_vec();
		v.insert(i, p.next() as u8);
		cand.push(v);
	}
	if cand.len() <= budget {
		out.extend(cand);
	} else {
		// deterministic sample without replacement
		for _ in 0..budget {
			let i = p.below(cand.len() as u64) as usize;
			out.push(cand.swap_remove(i));
		}
	}
}

/// big-endian integer field rewrites at a known offset
fn set_be(b: &[u8], off: usize, width: usize, val: u64) -> Vec<u8> {
	let mut v = b.to_vec();
	for k in 0..width {
		if off + k < v.len() {
			v[off + k] = (val >> (8 * (width - 1 - k))) as u8;
		}
	}
	v
}

fn b58(data: &[u8]) -> String {
	bs58::encode(data).into_string()
}
fn sha_check(data: &[u8]) -> Vec<u8> {
	use sha2::{Digest, Sha256};
	let a = Sha256::digest(data);
	let b = Sha256::digest(&a);
	b[0..4].to_vec()
}
fn armor_of(data: &[u8]) -> Vec<u8> {
	let mut buf = sha_check(data);
	buf.extend(data);
	format!("BEGINSLATEPACK. {} . ENDSLATEPACK.", b58(&buf)).into_bytes()
}

fn pks<'a>(p: &mut Prng, v: &[&'a str]) -> &'a str {
	v[p.below(v.len() as u64) as usize]
}

fn gen_armor_grammar(p: &mut Prng, pools: &Pools) -> Vec<u8> {
	let ws = [" ", "\n", "\r", "\t", ">", "", "", " "];
	let headers = [
		"BEGINSLATEPACK",
		"BEGINSLATEPACK",
		"BEGINSLATEPACK",
		"BEGINSLATEPAC",
		"BEGINSLATEPACKK",
		"beginslatepack",
		"ENDSLATEPACK",
		"",
		"BEGIN SLATEPACK",
		"BEGINSLATEPACK\u{e9}",
	];
	let footers = [
		"ENDSLATEPACK",
		"ENDSLATEPACK",
		"ENDSLATEPACK",
		"ENDSLATEPAC",
		"BEGINSLATEPACK",
		"",
		"END SLATEPACK",
		"endslatepack",
	];
	let dots = [".", ".", ".", ".", "", ".."];
	let data = match p.below(6) {
		0 => vec![],
		1 => rb(p, 0, 4 - 1),
		2 => sp_bytes(&valid_sp(p, pools)),
		_ => rb(p, 1, 80),
	};
	let mut buf = if p.chance(4, 5) {
		sha_check(&data)
	} else {
		rb(p, 0, 6 - 1)
	};
	buf.extend(&data);
	if p.chance(1, 6) {
		// payloads shorter than the 4-byte check
		buf.truncate(p.below(4) as usize);
	}
	let mut payload = b58(&buf);
	if p.chance(1, 3) && !payload.is_empty() {
		// whitespace / junk inside the payload
		let k = p.below(payload.len() as u64) as usize;
		payload.insert_str(k, pks(p, &[" ", "\n", ">", "\t", "\r", "0", "l", "I", "O", "\u{e9}", "-"]));
	}
	let mut s = String::new();
	s.push_str(pks(p, &ws));
	s.push_str(pks(p, &headers));
	s.push_str(pks(p, &ws));
	s.push_str(pks(p, &dots));
	s.push_str(pks(p, &ws));
	s.push_str(&payload);
	s.push_str(pks(p, &ws));
	s.push_str(pks(p, &dots));
	s.push_str(pks(p, &ws));
	s.push_str(pks(p, &footers));
	s.push_str(pks(p, &ws));
	s.push_str(pks(p, &dots));
	s.push_str(pks(p, &ws));
	let mut v = s.into_bytes();
	if p.chance(1, 8) {
		let k = p.below(v.len() as u64 + 1) as usize;
		v.truncate(k);
	}
	v
}

fn gen_spbin_grammar(p: &mut Prng, pools: &Pools) -> Vec<u8> {
	// field by field with boundary choices for every length
	let mut v = vec![];
	v.push(*p.pick(&[1u8, 1, 1, 0, 2, 255]));
	v.push(*p.pick(&[0u8, 0, 1, 255]));
	v.push(*p.pick(&[0u8, 0, 1, 1, 2, 255]));
	let has_sender = p.chance(1, 2);
	let flags: u16 = if has_sender { 1 } else { 0 } | if p.chance(1, 6) { p.next() as u16 & 0xfffe } else { 0 };
	v.extend(&flags.to_be_bytes());
	let addr = match p.below(8) {
		0 => bech32_encode("tgrin", &p.bytes(31)),
		1 => bech32_encode("tgrin", &p.bytes(33)),
		2 => bech32_encode("", &pools.eds[0].to_bytes()),
		3 => addr_string(p.pick(&pools.addrs)).to_uppercase(),
		4 => bech32_encode(&"x".repeat(60), &pools.eds[1].to_bytes()),
		_ => addr_string(p.pick(&pools.addrs)),
	};
	let alen = addr.len() + 1;
	let junk = *p.pick(&[0usize, 0, 0, 1, 5, 139]);
	let opt_len: u32 = match p.below(10) {
		0 => 0,
		1 => (alen as u32).wrapping_sub(1),
		2 => alen as u32 + 1,
		3 => u32::MAX,
		4 => 100_000,
		_ => (if has_sender { alen } else { 0 } + junk) as u32,
	};
	v.extend(&opt_len.to_be_bytes());
	if has_sender {
		let l = match p.below(8) {
			0 => 0,
			1 => addr.len() - 1,
			2 => addr.len() + 1,
			3 => 255,
			_ => addr.len(),
		};
		v.push(l as u8);
		v.extend(addr.as_bytes());
	}
	v.extend(p.bytes(junk));
	let payload = rb(p, 0, 50 - 1);
	let plen: u64 = match p.below(10) {
		0 => 0,
		1 => payload.len() as u64 + 1,
		2 => (payload.len() as u64).wrapping_sub(1),
		3 => 100_000,
		4 => 100_001,
		5 => u64::MAX,
		_ => payload.len() as u64,
	};
	v.extend(&plen.to_be_bytes());
	v.extend(&payload);
	if p.chance(1, 10) {
		v.extend(p.bytes(3));
	}
	v
}

fn gen_meta_plain(p: &mut Prng, pools: &Pools) -> Vec<u8> {
	// EncMetadataBin ‖ payload with boundary choices
	let has_sender = p.chance(1, 2);
	let nrec = *p.pick(&[0usize, 0, 1, 2, 3]);
	let mut body = vec![];
	let mut flags: u16 = 0;
	if has_sender {
		flags |= 1;
	}
	if nrec > 0 || p.chance(1, 10) {
		flags |= 2;
	}
	if p.chance(1, 10) {
		flags |= p.next() as u16 & 0xfffc;
	}
	body.extend(&flags.to_be_bytes());
	if has_sender {
		let a = addr_string(p.pick(&pools.addrs));
		body.push(a.len() as u8);
		body.extend(a.as_bytes());
	}
	if flags & 2 != 0 {
		let cnt: u16 = match p.below(8) {
			0 => nrec as u16 + 1,
			1 => 65535,
			_ => nrec as u16,
		};
		body.extend(&cnt.to_be_bytes());
		for _ in 0..nrec {
			let a = if p.chance(1, 8) {
				bech32_encode("tgrin", &p.bytes(32))
			} else {
				addr_string(p.pick(&pools.addrs))
			};
			body.push(a.len() as u8);
			body.extend(a.as_bytes());
		}
	}
	let junk = *p.pick(&[0usize, 0, 0, 1, 139]);
	body.extend(p.bytes(junk));
	let len: u32 = match p.below(12) {
		0 => 0,
		1 => 1,
		2 => 2,
		3 => body.len() as u32 - 1,
		4 => body.len() as u32 + 1,
		5 => u32::MAX,
		6 => body.len() as u32 + 1000,
		_ => body.len() as u32,
	};
	let mut v = len.to_be_bytes().to_vec();
	v.extend(&body);
	v.extend(rb(p, 0, 30 - 1));
	if p.chance(1, 10) {
		let k = p.below(v.len() as u64 + 1) as usize;
		v.truncate(k);
	}
	v
}

fn json_paths(v: &Value, cur: &mut Vec<String>, out: &mut Vec<Vec<String>>) {
	match v {
		Value::Object(m) => {
			for (k, x) in m.iter() {
				cur.push(k.clone());
				out.push(cur.clone());
				json_paths(x, cur, out);
				cur.pop();
			}
		}
		Value::Array(a) => {
			for (i, x) in a.iter().enumerate() {
				cur.push(format!("#{}", i));
				out.push(cur.clone());
				json_paths(x, cur, out);
				cur.pop();
			}
		}
		_ => {}
	}
}
fn json_get_mut<'a>(v: &'a mut Value, path: &[String]) -> Option<&'a mut Value> {
	let mut cur = v;
	for seg in path {
		cur = if let Some(i) = seg.strip_prefix('#') {
			cur.get_mut(i.parse::<usize>().ok()?)?
		} else {
			cur.get_mut(seg.as_str())?
		};
	}
	Some(cur)
}
fn json_remove(v: &mut Value, path: &[String]) {
	if path.is_empty() {
		return;
	}
	let (last, parent) = path.split_last().unwrap();
	if let Some(pv) = json_get_mut(v, parent) {
		if let Some(i) = last.strip_prefix('#') {
			if let (Some(a), Ok(i)) = (pv.as_array_mut(), i.parse::<usize>()) {
				if i < a.len() {
					a.remove(i);
				}
			}
		} else if let Some(m) = pv.as_object_mut() {
			m.remove(last.as_str());
		}
	}
}

/// every single-leaf mutation of a JSON document: for string leaves the hex/base64 payload
/// lengths {0, n-1 chars, n-1 bytes, n, n+1 bytes}, junk characters, non-ASCII, wrong types;
/// for numbers the integer boundaries and wrong types; removal of every key
fn mutate_json(p: &mut Prng, doc: &Value, budget: usize, out: &mut Vec<Vec<u8>>) {
	let mut paths = vec![];
	json_paths(doc, &mut vec![], &mut paths);
	let mut cand: Vec<Value> = vec![];
	for path in paths.iter() {
		let mut d = doc.clone();
		json_remove(&mut d, path);
		cand.push(d);
		let leaf = json_get_mut(&mut doc.clone(), path).cloned().unwrap();
		let mut reps: Vec<Value> = vec![
			Value::Null,
			json!([]),
			json!({}),
			json!(true),
			json!(""),
			json!(-1),
			json!(1.5),
			json!(0),
			json!(256),
			json!(65536),
			json!(u64::MAX),
			json!(1.8446744073709552e19),
			json!("18446744073709551616"),
			json!("x"),
		];
		if let Value::String(s) = &leaf {
			let n = s.len();
			let cut = |k: usize| -> String { s.chars().take(k).collect() };
			reps.push(json!(cut(n.saturating_sub(1))));
			reps.push(json!(cut(n.saturating_sub(2))));
			reps.push(json!(cut(n / 2)));
			reps.push(json!(cut(2)));
			reps.push(json!(format!("{}0", s)));
			reps.push(json!(format!("{}00", s)));
			reps.push(json!(format!("{}{}", s, s)));
			reps.push(json!(format!("0x{}", s)));
			reps.push(json!(format!(" {} ", s)));
			reps.push(json!(s.to_uppercase()));
			if n > 0 {
				let k = p.below(n as u64) as usize;
				for junk in ["g", "\u{e9}", " ", "+", "\u{1F600}", "="].iter() {
					let mut t: Vec<char> = s.chars().collect();
					if k < t.len() {
						t[k] = junk.chars().next().unwrap();
					}
					reps.push(json!(t.into_iter().collect::<String>()));
				}
				// a 2-byte character at an odd byte offset (splits a hex pair)
				reps.push(json!(format!("a\u{e9}b{}", cut(n.saturating_sub(4)))));
			}
			// long values
			reps.push(json!("ab".repeat(676)));
			reps.push(json!("ab".repeat(5000)));
		}
		for r in reps {
			let mut d = doc.clone();
			if let Some(x) = json_get_mut(&mut d, path) {
				*x = r;
			}
			cand.push(d);
		}
	}
	// unknown key
	let mut d = doc.clone();
	if let Some(m) = d.as_object_mut() {
		m.insert("zzz".into(), json!(1));
	}
	cand.push(d);
	let n = cand.len();
	if n <= budget {
		out.extend(cand.iter().map(|d| d.to_string().into_bytes()));
	} else {
		for _ in 0..budget {
			let i = p.below(cand.len() as u64) as usize;
			out.push(cand.swap_remove(i).to_string().into_bytes());
		}
	}
}

fn gen_cases(p: &mut Prng, pools: &Pools, scale: u64) -> Vec<Case> {
	let mut cs: Vec<Case> = vec![];
	let mut push = |d: u64, pp: u64, input: Vec<u8>, stream: &'static str| {
		cs.push(Case {
			d,
			p: pp,
			input,
			stream,
		})
	};
	let s = scale as usize;

	// ---- stream 1: random bytes into every entry point
	for _ in 0..(60 * s) {
		for d in [1u64, 2, 4, 5, 6, 8, 9, 10, 11, 12, 13, 14, 15, 17].iter() {
			let n = rand_len(p);
			let n = if *d == 6 { n.min(120) } else { n };
			let mut b = p.bytes(n);
			if *d == 5 && p.chance(1, 2) && b.len() >= 15 {
				b[..15].copy_from_slice(b"BEGINSLATEPACK.");
			}
			push(*d, 0, b, "random");
		}
	}
	for k in 1..=N_HELPERS {
		for _ in 0..(6 * s) {
			let n = rand_len(p).min(120);
			if k <= N_FIELD_HELPERS {
				push(7, k, p.bytes(n), "random");
			}
			let n = rand_len(p).min(60);
			push(16, k, p.bytes(n), "random");
		}
	}

	// ---- stream 2: grammar-generated near-valid
	for _ in 0..(300 * s) {
		push(1, 0, gen_armor_grammar(p, pools), "grammar");
	}
	for _ in 0..(200 * s) {
		let a = gen_armor_grammar(p, pools);
		push(5, p.below(2), a.clone(), "grammar");
		push(15, 0, a, "grammar");
	}
	for _ in 0..(300 * s) {
		let b = gen_spbin_grammar(p, pools);
		push(2, 0, b.clone(), "grammar");
		push(5, p.below(2), b.clone(), "grammar");
		if p.chance(1, 4) {
			push(5, 0, armor_of(&b), "grammar");
		}
	}
	for _ in 0..(120 * s) {
		push(6, 0, gen_meta_plain(p, pools), "grammar");
	}
	// fixed witnesses of the round-0 probe and their neighbours
	for w in [
		"BEGINSLATEPACK.",
		"BEGINSLATEPACK",
		"BEGINSLATEPACK. ",
		"BEGINSLATEPACK.abc",
		"BEGINSLATEPACK. abc ENDSLATEPACK",
		"BEGINSLATEPACK.. ENDSLATEPACK.",
		"BEGINSLATEPACK. . ENDSLATEPACK.",
		"BEGINSLATEPACK. 1 . ENDSLATEPACK.",
		"BEGINSLATEPACK. 111 . ENDSLATEPACK.",
		"BEGINSLATEPACK. 1111 . ENDSLATEPACK.",
		"BEGINSLATEPACK. 11111 . ENDSLATEPACK.",
		"BEGINSLATEPACK. 2g . ENDSLATEPACK.",
		"",
		".",
		"..",
		"...",
	]
	.iter()
	{
		push(1, 0, w.as_bytes().to_vec(), "witness");
		push(5, 0, w.as_bytes().to_vec(), "witness");
		push(15, 0, w.as_bytes().to_vec(), "witness");
	}
	// size bounds of deser_slatepack: 14/15 bytes, max_size and max_size + 1 (7262 on the test chain)
	for n in [0usize, 14, 15, 16, 7261, 7262, 7263].iter() {
		push(5, 0, vec![b'{'; *n], "bounds");
		let mut v = b"BEGINSLATEPACK.".to_vec();
		v.resize((*n).max(15), b'1');
		push(5, 0, v, "bounds");
	}
	// the base58 layer (bs58 0.3.1) is quadratic in the payload length: one armored input far
	// below slatepack::max_size (1.28 MB on mainnet) already takes seconds (recorded finding C09-F1)
	{
		let mut v = b"BEGINSLATEPACK. ".to_vec();
		v.extend(std::iter::repeat(b'z').take(120_000));
		v.extend(b". ENDSLATEPACK.");
		push(15, 1, v, "quadratic");
	}
	// post-decryption plaintext boundaries (lengths 0..8 around the 4-byte length prefix)
	for n in 0..8usize {
		push(6, 0, vec![0u8; n], "bounds");
		push(6, 0, vec![0xffu8; n], "bounds");
		let mut v = vec![0, 0, 0, n as u8];
		v.extend(vec![0u8; 3]);
		push(6, 0, v, "bounds");
	}
	push(6, 1, b"passphrase-wrapped".to_vec(), "witness");

	// ---- stream 3: single-field mutations / truncations / extensions of valid encodings
	for _ in 0..(14 * s) {
		let v4 = valid_v4(p, pools);
		let b = v4_bytes(&v4);
		push(4, 0, b.clone(), "valid");
		push(14, 0, b.clone(), "valid");
		let mut ms = vec![];
		mutate_bytes(p, &b, 110, &mut ms);
		for m in ms {
			if p.chance(1, 6) {
				push(14, 0, m.clone(), "mutation");
			}
			push(4, 0, m, "mutation");
		}
	}
	for _ in 0..(10 * s) {
		let sp = valid_sp(p, pools);
		let b = sp_bytes(&sp);
		push(2, 0, b.clone(), "valid");
		let mut ms = vec![];
		mutate_bytes(p, &b, 70, &mut ms);
		// the length fields explicitly: opt_len (u32 at 5), address length (u8 at 9), payload length
		let alen = sp.sender.as_ref().map(|a| addr_string(a).len() + 1).unwrap_or(0);
		for val in [0u64, 1, alen as u64 - (alen > 0) as u64, alen as u64 + 1, 255, 65536, u32::MAX as u64].iter() {
			ms.push(set_be(&b, 5, 4, *val));
		}
		let poff = 9 + alen;
		let plen = sp.payload.len() as u64;
		for val in [0u64, plen.wrapping_sub(1), plen + 1, 100_000, 100_001, u64::MAX].iter() {
			ms.push(set_be(&b, poff, 8, *val));
		}
		for m in ms {
			push(2, 0, m.clone(), "mutation");
			if p.chance(1, 3) {
				push(5, p.below(2), m.clone(), "mutation");
			}
			if p.chance(1, 12) {
				push(5, 0, armor_of(&m), "mutation");
			}
		}
		// armored form and its mutations
		if let Ok(a) = SlatepackArmor::encode(&sp) {
			let a = a.into_bytes();
			push(1, 0, a.clone(), "valid");
			push(5, 0, a.clone(), "valid");
			push(5, 1, a.clone(), "valid");
			let mut ms = vec![];
			mutate_bytes(p, &a, 40, &mut ms);
			for m in ms {
				push(1, 0, m.clone(), "mutation");
				if p.chance(1, 3) {
					push(5, p.below(2), m.clone(), "mutation");
					push(15, 0, m, "mutation");
				}
			}
		}
		// JSON form and its mutations
		let js = serde_json::to_value(&sp).unwrap();
		push(9, 0, js.to_string().into_bytes(), "valid");
		push(5, 0, js.to_string().into_bytes(), "valid");
		let mut ms = vec![];
		mutate_json(p, &js, 40, &mut ms);
		for m in ms {
			push(9, 0, m.clone(), "mutation");
			if p.chance(1, 3) {
				push(5, 0, m, "mutation");
			}
		}
	}
	// encrypted slatepacks: valid metadata ‖ payload, then every mutation of the PLAINTEXT
	// (still validly encrypted to the wallet's key)
	for _ in 0..(3 * s) {
		let mut sp = Slatepack::default();
		if p.coin() {
			sp.sender = Some(p.pick(&pools.addrs).clone());
		}
		for _ in 0..p.below(3) {
			sp.add_recipient(p.pick(&pools.addrs).clone());
		}
		sp.payload = rb(p, 0, 40 - 1);
		let mut e = sp.clone();
		if e.try_encrypt_payload(vec![pools.my_addr.clone()]).is_ok() {
			if let Some(plain) = age_decrypt_with(&pools.my_ed_secret, &e.payload) {
				push(6, 0, plain.clone(), "valid");
				let mut ms = vec![];
				mutate_bytes(p, &plain, 60, &mut ms);
				for m in ms {
					push(6, 0, m, "mutation");
				}
			}
			// the encrypted slatepack itself through the dispatcher with the key, and mutated
			let b = sp_bytes(&e);
			push(15, 0, b.clone(), "valid");
			let mut ms = vec![];
			mutate_bytes(p, &b, 25, &mut ms);
			for m in ms {
				push(15, 0, m, "mutation");
			}
		}
	}
	// V4 JSON: every leaf mutated
	for _ in 0..(6 * s) {
		let v4 = valid_v4(p, pools);
		let js = serde_json::to_value(&VersionedSlate::V4(v4)).unwrap();
		push(8, 0, js.to_string().into_bytes(), "valid");
		let mut ms = vec![];
		mutate_json(p, &js, 260, &mut ms);
		for m in ms {
			push(8, 0, m, "mutation");
		}
	}
	// helpers at field level: decoded lengths {0, n-1, n, n+1} and neighbours for every helper
	for k in 1..=N_HELPERS {
		let n = match k {
			5 | 6 | 7 => 64,
			8 => 16,
			13 => 675,
			_ => 32,
		};
		let mut lens = vec![0usize, 1, n - 1, n, n + 1, 2 * n];
		if k == 13 {
			lens.extend(&[674, 676, 1000]);
		}
		for l in lens {
			for variant in 0..(3 * s) {
				let mut b = p.bytes(l);
				if variant % 3 == 0 && l >= 32 {
					// start with a valid ed25519 key / signature-shaped value
					b[..32].copy_from_slice(&p.pick(&pools.eds).to_bytes());
				}
				if matches!(k, 5 | 6 | 7) && l >= 64 && variant % 2 == 0 {
					b[63] &= 0x1f;
				}
				if k <= N_FIELD_HELPERS {
					push(7, k, b, "field-lengths");
				} else {
					push(16, k, format!("\"{}\"", hex(&b)).into_bytes(), "field-lengths");
				}
			}
		}
		// text layer junk
		for t in [
			"null", "\"\"", "\"zz\"", "\"abc\"", "\"a\u{e9}b\"", "\"\u{e9}\u{e9}\"", "5", "[]", "\"0x\"", "\" 00 \"",
			"\"+f+f\"", "\"====\"", "\"AA=A\"", "\"A\"",
		]
		.iter()
		{
			push(16, k, t.as_bytes().to_vec(), "text-layer");
		}
	}
	// addresses
	for _ in 0..(40 * s) {
		let a = addr_string(p.pick(&pools.addrs));
		push(10, 0, a.clone().into_bytes(), "valid");
		let mut ms = vec![];
		mutate_bytes(p, a.as_bytes(), 12, &mut ms);
		for m in ms {
			push(10, 0, m, "mutation");
		}
		for l in [0usize, 1, 31, 32, 33, 64].iter() {
			push(10, 0, bech32_encode("tgrin", &p.bytes(*l)).into_bytes(), "field-lengths");
		}
		let o = grin_wallet_util::OnionV3Address::from_bytes(p.pick(&pools.eds).to_bytes());
		let os = o.to_ov3_str();
		for t in [
			os.clone(),
			format!("http://{}.onion", os),
			format!("HTTPS://{}.ONION", os),
			os.to_uppercase(),
			hex(o.as_bytes()),
			format!("a\u{e9}b{}", &os[4..]),
			format!("{}\u{e9}", &os[..54]),
			format!("{}\u{131}", &os[..55]),
			"\u{df}".repeat(28),
			// base32 padding inside the 56 characters: fewer than 32 decoded bytes
			format!("{}======", &os[..50]),
			format!("{}=", &os[..55]),
			format!("{}====", &os[..52]),
			format!("{}{}", &os[..48], "=".repeat(8)),
		]
		.iter()
		{
			push(11, 0, t.clone().into_bytes(), "valid");
		}
		let mut ms = vec![];
		mutate_bytes(p, os.as_bytes(), 12, &mut ms);
		for m in ms {
			push(11, 0, m, "mutation");
		}
	}
	// owner-listener parameter types: hex strings of lengths {0, n-1, n, n+1} and text junk
	for (d, n) in [(18u64, 33usize), (19, 32), (20, 32)].iter() {
		for l in [0usize, 1, n - 1, *n, n + 1, 2 * n, 65].iter() {
			for _ in 0..(2 * s) {
				let mut b = p.bytes(*l);
				if *d == 18 && *l >= 33 && p.coin() {
					b[..33].copy_from_slice(&pk_bytes(p.pick(&pools.pks)));
				}
				push(*d, 0, format!("\"{}\"", hex(&b)).into_bytes(), "field-lengths");
			}
		}
		for t in ["null", "\"\"", "\"zz\"", "\"abc\"", "\"a\u{e9}b\"", "5", "[]", "\"0x\"", "{}"].iter() {
			push(*d, 0, t.as_bytes().to_vec(), "text-layer");
		}
		for _ in 0..(10 * s) {
			let n = rand_len(p).min(80);
			push(*d, 0, p.bytes(n), "random");
		}
	}
	// build_coinbase's BlockFees: valid, every single-field mutation, key ids that are not hex
	for _ in 0..(2 * s) {
		let kid = hex(&p.bytes(17));
		let bf = json!({"fees": "0", "height": p.below(1000).to_string(), "key_id": kid});
		push(21, 0, bf.to_string().into_bytes(), "valid");
		let mut ms = vec![];
		mutate_json(p, &bf, 120, &mut ms);
		for m in ms {
			push(21, 0, m, "mutation");
		}
		for k in ["zz", "0", "a\u{e9}b", "\u{e9}", "0x", "", "03zz"].iter() {
			push(21, 0, format!("{{\"fees\":0,\"height\":1,\"key_id\":\"{}\"}}", k).into_bytes(), "text-layer");
		}
		push(21, 0, b"{\"fees\":0,\"height\":1,\"key_id\":null}".to_vec(), "valid");
		push(21, 0, b"{\"fees\":0,\"height\":1}".to_vec(), "valid");
	}
	// payment proof JSON / stored proof JSON / EncryptedBody
	for _ in 0..(3 * s) {
		let pp = json!({
			"amount": "60000000000",
			"excess": hex(&gen_commit(p).0),
			"recipient_address": addr_string(p.pick(&pools.addrs)),
			"recipient_sig": hex(&gen_edsig(p).to_bytes()),
			"sender_address": addr_string(p.pick(&pools.addrs)),
			"sender_sig": hex(&gen_edsig(p).to_bytes()),
		});
		push(12, 0, pp.to_string().into_bytes(), "valid");
		let mut ms = vec![];
		mutate_json(p, &pp, 200, &mut ms);
		for m in ms {
			push(12, 0, m, "mutation");
		}
		let sp = json!({
			"receiver_address": hex(&p.pick(&pools.eds).to_bytes()),
			"receiver_signature": hex(&gen_edsig(p).to_bytes()),
			"sender_address_path": 3,
			"sender_address": hex(&p.pick(&pools.eds).to_bytes()),
			"sender_signature": Value::Null,
		});
		push(17, 0, sp.to_string().into_bytes(), "valid");
		let mut ms = vec![];
		mutate_json(p, &sp, 150, &mut ms);
		for m in ms {
			push(17, 0, m, "mutation");
		}
		let key = secp_key();
		let body = vharness::api::EncryptedRequest::from_json(
			&vharness::api::JsonId::IntId(1),
			&json!({"jsonrpc":"2.0","method":"x","params":[],"id":1}),
			&key,
		)
		.unwrap();
		let bj = serde_json::to_value(&body).unwrap();
		push(13, 0, bj.to_string().into_bytes(), "valid");
		let mut ms = vec![];
		mutate_json(p, &bj, 120, &mut ms);
		for m in ms {
			push(13, 0, m, "mutation");
		}
		// nonce lengths {0, 11, 12, 13} bytes and short bodies
		for nl in [0usize, 11, 12, 13].iter() {
			for bl in [0usize, 1, 15, 16, 17].iter() {
				let d = json!({"jsonrpc": "2.0", "method": "encrypted_request_v3", "id": 1,
					"params": {"nonce": hex(&p.bytes(*nl)), "body_enc": base64::encode(&p.bytes(*bl))}});
				push(13, 0, d.to_string().into_bytes(), "field-lengths");
			}
		}
	}
	cs
}

fn emit(out: &mut Out, id: u64, c: &Case, r: &Row) {
	let fails = oracle(c, r);
	out.line(&json!({
		"id": id, "case": case_json(c), "ext": r.ext, "cls": r.cls, "res": r.res,
		"msg": r.msg.chars().take(200).collect::<String>(), "us": r.us as u64, "peak": r.peak, "oracle": fails
	}));
}

fn run_all(cases: &[Case], threads: usize) -> Vec<Row> {
	let n = cases.len();
	let chunk = (n + threads - 1) / threads.max(1);
	let mut rows: Vec<Option<Row>> = (0..n).map(|_| None).collect();
	std::thread::scope(|sc| {
		let mut handles = vec![];
		for (ci, (cs, rs)) in cases.chunks(chunk.max(1)).zip(rows.chunks_mut(chunk.max(1))).enumerate() {
			let _ = ci;
			handles.push(sc.spawn(move || {
				set_chain(0);
				let pools = Pools::new();
				for (c, r) in cs.iter().zip(rs.iter_mut()) {
					// (when asked to, say which case is about to be decoded: if a decoder takes the
					// whole process down — an abort or a fault below Rust, which catch_unwind cannot
					// contain — the last line names the input)
					if let Ok(path) = std::env::var("VERIF_C09_TRACE") {
						use std::io::Write;
						if let Ok(mut f) = std::fs::OpenOptions::new().create(true).append(true).open(&path) {
							let _ = writeln!(f, "{}", case_json(c));
							let _ = f.sync_data();
						}
					}
					*r = Some(run_case(c, &pools));
				}
			}));
		}
		for h in handles {
			h.join().unwrap();
		}
	});
	rows.into_iter().map(|r| r.unwrap()).collect()
}

fn main() {
	quiet_panics();
	set_chain(0);
	let out_path = arg("out").expect("--out");
	let mut out = Out::create(&out_path);
	let pools = Pools::new();
	let cases: Vec<Case> = if let Some(replay) = arg("replay") {
		let v: Value = serde_json::from_str(&std::fs::read_to_string(&replay).unwrap()).unwrap();
		if v.get("cases").is_some() {
			v["cases"].as_array().unwrap().iter().map(case_from_json).collect()
		} else {
			vec![case_from_json(&v["case"])]
		}
	} else {
		let mut p = Prng::new(seed_from_env());
		gen_cases(&mut p, &pools, arg_u64("scale", 1))
	};
	let rows = run_all(&cases, arg_u64("threads", 16) as usize);
	for (i, (c, r)) in cases.iter().zip(rows.iter()).enumerate() {
		emit(&mut out, i as u64, c, r);
	}
	out.finish();
}
