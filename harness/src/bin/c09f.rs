//! C09, "JSON-RPC request bodies on both listeners": the FOREIGN listener's handler
//! (`controller::ForeignAPIHandlerV2::post`, the object the HTTP router calls) is fed, on a real
//! wallet over a real chain, with valid requests of every foreign method, every single-field
//! mutation of them (field removed / replaced by null, "", junk text, non-ASCII text, a number, an
//! array, an object, a very long string), text-layer junk and random bytes. Each POST runs under
//! `catch_unwind`: the handler has to answer (a JSON-RPC result, a JSON-RPC error or an HTTP error),
//! never panic. One JSON line per POST: {"kind":"foreign_post","method","case","in":hex,"status","panic"}.
//! (The owner listener's bodies are driven by the c13 harness; its gate refuses everything that is
//! not authenticated.)
use easy_jsonrpc_mw::{Handler as RpcHandler, MaybeReply};
use grin_api::Handler;
use grin_keychain::ExtKeychain;
use grin_util::{Mutex, ToHex};
use hyper::{Body, Request};
use serde_json::{json, Value};
use std::sync::Arc;
use vharness::api::{Owner, OwnerRpc};
use vharness::controller::controller::ForeignAPIHandlerV2;
use vharness::libwallet::api_impl::owner;
use vharness::libwallet::{InitTxArgs, SlateVersion, VersionedSlate};
use vharness::node::ChainNode;
use vharness::prng::{seed_from_env, Prng};
use vharness::scen::*;
use vharness::*;

type H = ForeignAPIHandlerV2<LC, ChainNode, ExtKeychain>;

fn paths(v: &Value, cur: &mut Vec<String>, out: &mut Vec<Vec<String>>) {
	match v {
		Value::Object(m) => {
			for (k, x) in m {
				cur.push(k.clone());
				out.push(cur.clone());
				paths(x, cur, out);
				cur.pop();
			}
		}
		Value::Array(a) => {
			for (i, x) in a.iter().enumerate() {
				cur.push(i.to_string());
				out.push(cur.clone());
				paths(x, cur, out);
				cur.pop();
			}
		}
		_ => {}
	}
}
fn at<'a>(v: &'a mut Value, path: &[String]) -> Option<&'a mut Value> {
	let mut c = v;
	for k in path {
		c = match c {
			Value::Object(m) => m.get_mut(k)?,
			Value::Array(a) => a.get_mut(k.parse::<usize>().ok()?)?,
			_ => return None,
		};
	}
	Some(c)
}
fn remove(v: &mut Value, path: &[String]) {
	if path.is_empty() {
		return;
	}
	let (last, head) = path.split_last().unwrap();
	if let Some(parent) = at(v, head) {
		match parent {
			Value::Object(m) => {
				m.remove(last);
			}
			Value::Array(a) => {
				if let Ok(i) = last.parse::<usize>() {
					if i < a.len() {
						a.remove(i);
					}
				}
			}
			_ => {}
		}
	}
}

fn mutations(p: &mut Prng, doc: &Value, budget: usize) -> Vec<(String, Vec<u8>)> {
	let mut ps = vec![];
	paths(doc, &mut vec![], &mut ps);
	let repl: Vec<Value> = vec![
		Value::Null,
		json!(""),
		json!("zz"),
		json!("a\u{e9}b"),
		json!("\u{e9}".repeat(40)),
		json!("0x"),
		json!(5),
		json!(-1),
		json!(18446744073709551615u64),
		json!(1.5),
		json!(true),
		json!([]),
		json!({}),
		json!("f".repeat(4097)),
	];
	let mut all = vec![];
	for path in &ps {
		let mut d = doc.clone();
		remove(&mut d, path);
		all.push((format!("remove {}", path.join("/")), d.to_string().into_bytes()));
		for r in &repl {
			let mut d = doc.clone();
			if let Some(x) = at(&mut d, path) {
				*x = r.clone();
			}
			all.push((format!("replace {} by {}", path.join("/"), r.to_string().chars().take(24).collect::<String>()), d.to_string().into_bytes()));
		}
		// a string field: one character made non-ASCII, truncated by one, extended by one
		let mut d = doc.clone();
		if let Some(Value::String(s)) = at(&mut d, path).map(|x| x.clone()) {
			if !s.is_empty() {
				let cs: Vec<char> = s.chars().collect();
				let i = p.below(cs.len() as u64) as usize;
				let mut t = cs.clone();
				t[i] = '\u{e9}';
				let variants: Vec<String> = vec![t.iter().collect(), cs[..cs.len() - 1].iter().collect(), format!("{}0", s)];
				for v in variants {
					let mut d2 = doc.clone();
					if let Some(x) = at(&mut d2, path) {
						*x = json!(v);
					}
					all.push((format!("edit {}", path.join("/")), d2.to_string().into_bytes()));
				}
			}
		}
	}
	// the budget: a deterministic sample
	if all.len() > budget {
		let mut picked = vec![];
		let step = all.len() as f64 / budget as f64;
		let off = p.below(step.max(1.0) as u64) as f64;
		let mut x = off;
		while (x as usize) < all.len() && picked.len() < budget {
			picked.push(all[x as usize].clone());
			x += step;
		}
		picked
	} else {
		all
	}
}

fn post(rt: &mut tokio::runtime::Runtime, h: &H, body: Vec<u8>) -> Result<(u16, Vec<u8>), String> {
	guarded(move || {
		let req = Request::post("http://127.0.0.1:3415/v2/foreign").body(Body::from(body)).unwrap();
		let resp = rt.block_on(h.post(req)).unwrap();
		let st = resp.status().as_u16();
		let b = rt.block_on(hyper::body::to_bytes(resp.into_body())).unwrap();
		(st, b.to_vec())
	})
}

fn main() {
	quiet_panics();
	init_thread();
	let out_path = arg("out").expect("--out");
	let mut out = Out::create(&out_path);
	let budget = arg_u64("budget", 60) as usize;
	let dir = format!("/tmp/vh_c09f_{}", std::process::id());
	let _ = std::fs::remove_dir_all(&dir);
	let mut s = Scen::new(&dir);
	let w = s.add_wallet("w", None, false);
	let cp = s.add_wallet("cp", None, false);
	s.mine(cp, 5);
	let _ = owner::retrieve_summary_info(s.wallets[cp].inst.clone(), None, &None, true, 1);
	let mut p = Prng::new(seed_from_env().wrapping_mul(97_003));
	let mut rt = tokio::runtime::Runtime::new().unwrap();
	let h: H = ForeignAPIHandlerV2::new(s.wallets[w].inst.clone(), Arc::new(Mutex::new(None)), false, Mutex::new(None));

	// a slate the counterparty initiated (a fresh one per valid receive)
	let mut fresh_slate = |s: &Scen, p: &mut Prng| -> Value {
		let args = InitTxArgs {
			src_acct_name: None,
			amount: p.range(1_000_000, 2_000_000_000),
			minimum_confirmations: 1,
			max_outputs: 500,
			num_change_outputs: 1,
			selection_strategy_is_use_all: false,
			..Default::default()
		};
		let sl = s.with(cp, |b, m| owner::init_send_tx(b, m, args, false)).unwrap();
		let v = VersionedSlate::into_version(sl, SlateVersion::V4).unwrap();
		serde_json::to_value(&v).unwrap()
	};
	let own_addr: String = owner::get_slatepack_address(s.wallets[cp].inst.clone(), None, 0).map(|a| a.to_string()).unwrap_or_default();

	let mut cases: Vec<(String, String, Vec<u8>)> = vec![];
	if let Some(f) = arg("replay") {
		let v: Value = serde_json::from_str(&std::fs::read_to_string(&f).expect("replay file")).unwrap();
		let hexs = v["in"].as_str().unwrap_or("");
		let bytes = grin_util::from_hex(hexs).unwrap_or_default();
		cases.push((v["method"].as_str().unwrap_or("?").to_owned(), "replay".to_owned(), bytes));
	} else {
		let height = s.node.height() + 1;
		let valid: Vec<(&str, Value)> = vec![
			("check_version", json!({"jsonrpc": "2.0", "method": "check_version", "id": 1, "params": []})),
			("build_coinbase", json!({"jsonrpc": "2.0", "method": "build_coinbase", "id": 1,
				"params": [{"fees": 0, "height": height, "key_id": null}]})),
			("build_coinbase", json!({"jsonrpc": "2.0", "method": "build_coinbase", "id": 1,
				"params": {"block_fees": {"fees": "7", "height": height.to_string(), "key_id": "0300000000000000000000000500000000"}}})),
			("receive_tx", json!({"jsonrpc": "2.0", "method": "receive_tx", "id": 1, "params": [fresh_slate(&s, &mut p), null, null]})),
			("receive_tx", json!({"jsonrpc": "2.0", "method": "receive_tx", "id": 1, "params": [fresh_slate(&s, &mut p), "default", own_addr.clone()]})),
			("receive_tx", json!({"jsonrpc": "2.0", "method": "receive_tx", "id": 1, "params": [fresh_slate(&s, &mut p), null, "x"]})),
			("finalize_tx", json!({"jsonrpc": "2.0", "method": "finalize_tx", "id": 1, "params": [fresh_slate(&s, &mut p)]})),
		];
		for (m, v) in &valid {
			cases.push((m.to_string(), "valid".into(), v.to_string().into_bytes()));
		}
		for (m, v) in &valid {
			for (what, b) in mutations(&mut p, v, budget) {
				cases.push((m.to_string(), what, b));
			}
		}
		for t in ["", "null", "[]", "[[]]", "{}", "5", "\"receive_tx\"", "{\"method\":\"receive_tx\"}", "{\"jsonrpc\":\"2.0\",\"method\":\"build_coinbase\",\"id\":1,\"params\":[{\"fees\":0,\"height\":1,\"key_id\":\"zz\"}]}",
			"{\"jsonrpc\":\"2.0\",\"method\":\"build_coinbase\",\"id\":1,\"params\":[{\"fees\":0,\"height\":1,\"key_id\":\"\u{e9}\"}]}",
			"[{\"jsonrpc\":\"2.0\",\"method\":\"check_version\",\"id\":1,\"params\":[]},{\"jsonrpc\":\"2.0\",\"method\":\"check_version\",\"id\":2,\"params\":[]}]"].iter()
		{
			cases.push(("-".into(), "text-layer".into(), t.as_bytes().to_vec()));
		}
		for _ in 0..(budget / 2) {
			let n = p.below(200) as usize;
			cases.push(("-".into(), "random".into(), p.bytes(n)));
		}
	}
	// ---- the owner listener's dispatcher behind the session gate (what an authenticated client can send):
	// OwnerRpc::handle_request on an api::Owner over the counterparty wallet (it has funds and a pending send)
	if arg("replay").is_none() || arg("owner").is_some() {
		let o = Owner::new(s.wallets[cp].inst.clone(), None);
		let slate_v = fresh_slate(&s, &mut p);
		let sid = slate_v["id"].as_str().unwrap_or("0436430c-2b02-624c-2032-570501212b00").to_owned();
		let init_args = json!({"src_acct_name": null, "amount": "1000000", "minimum_confirmations": 1, "max_outputs": 500,
			"num_change_outputs": 1, "selection_strategy_is_use_all": false, "target_slate_version": null,
			"payment_proof_recipient_address": null, "ttl_blocks": null, "send_args": null});
		let hex32 = "11".repeat(32);
		let hex64 = "22".repeat(64);
		let commit = format!("08{}", "33".repeat(32));
		let calls: Vec<(&str, Value)> = vec![
			("accounts", json!({"token": null})),
			("create_account_path", json!({"token": null, "label": "acct_x"})),
			("set_active_account", json!({"token": null, "label": "default"})),
			("retrieve_outputs", json!({"token": null, "include_spent": false, "refresh_from_node": false, "tx_id": null})),
			("retrieve_txs", json!({"token": null, "refresh_from_node": false, "tx_id": null, "tx_slate_id": sid})),
			("query_txs", json!({"token": null, "refresh_from_node": false, "query": {"min_id": 0, "sort_order": "Desc", "limit": 2}})),
			("retrieve_summary_info", json!({"token": null, "refresh_from_node": false, "minimum_confirmations": 1})),
			("init_send_tx", json!({"token": null, "args": init_args})),
			("issue_invoice_tx", json!({"token": null, "args": {"amount": "1000", "dest_acct_name": null, "target_slate_version": null}})),
			("process_invoice_tx", json!({"token": null, "slate": slate_v, "args": init_args})),
			("tx_lock_outputs", json!({"token": null, "slate": slate_v})),
			("finalize_tx", json!({"token": null, "slate": slate_v})),
			("post_tx", json!({"token": null, "slate": slate_v, "fluff": false})),
			("cancel_tx", json!({"token": null, "tx_id": null, "tx_slate_id": "0436430c-2b02-624c-2032-570501212b01"})),
			("get_stored_tx", json!({"token": null, "id": null, "slate_id": sid})),
			("get_rewind_hash", json!({"token": null})),
			("scan_rewind_hash", json!({"rewind_hash": hex32, "start_height": 1})),
			("node_height", json!({"token": null})),
			("get_slatepack_address", json!({"token": null, "derivation_index": 0})),
			("get_slatepack_secret_key", json!({"token": null, "derivation_index": 0})),
			("create_slatepack_message", json!({"token": null, "slate": slate_v, "sender_index": 0, "recipients": [own_addr]})),
			("slate_from_slatepack_message", json!({"token": null, "message": "BEGINSLATEPACK. 4H1qx1wHe668tFW yC2gfL8PPd8kSgv pcXQhyRkHbyKHZg. ENDSLATEPACK.", "secret_indices": [0]})),
			("decode_slatepack_message", json!({"token": null, "message": "BEGINSLATEPACK. 4H1qx1wHe668tFW yC2gfL8PPd8kSgv pcXQhyRkHbyKHZg. ENDSLATEPACK.", "secret_indices": [0]})),
			("retrieve_payment_proof", json!({"token": null, "refresh_from_node": false, "tx_id": null, "tx_slate_id": sid})),
			("verify_payment_proof", json!({"token": null, "proof": {"amount": "60000000000", "excess": commit, "recipient_address": own_addr,
				"recipient_sig": hex64, "sender_address": own_addr, "sender_sig": hex64}})),
			("build_output", json!({"token": null, "features": "Plain", "amount": "1000"})),
			("create_mwixnet_req", json!({"token": null, "commitment": commit, "fee_per_hop": "5000", "lock_output": false, "server_keys": [hex32]})),
			("get_mnemonic", json!({"name": null, "password": ""})),
			("get_updater_messages", json!({"count": 1})),
			("set_tor_config", json!({"tor_config": null})),
			("get_top_level_directory", json!({})),
		];
		let per = (budget / 2).max(10);
		let mut ocases: Vec<(String, String, Value)> = vec![];
		for (m, params) in &calls {
			let req = json!({"jsonrpc": "2.0", "method": m, "id": 1, "params": params});
			ocases.push((m.to_string(), "valid".into(), req.clone()));
			for (what, b) in mutations(&mut p, &req, per) {
				if let Ok(v) = serde_json::from_slice::<Value>(&b) {
					ocases.push((m.to_string(), what, v));
				}
			}
		}
		for (method, what, v) in ocases {
			let body = v.to_string();
			let o2 = &o;
			let r = guarded(move || match <dyn OwnerRpc>::handle_request(o2, v) {
				MaybeReply::Reply(_) => 200i64,
				MaybeReply::DontReply => 204i64,
			});
			let (status, panic) = match r {
				Ok(st) => (st, None),
				Err(m) => (-1, Some(m.chars().take(300).collect::<String>())),
			};
			out.line(&json!({"kind": "owner_call", "method": method, "case": what, "in": body.as_bytes().to_vec().to_hex(), "status": status,
				"panic": panic, "reply_is_json": true}));
		}
		let _ = o.stop_updater();
	}
	for (method, what, body) in cases {
		let r = post(&mut rt, &h, body.clone());
		let (status, panic, reply_json) = match &r {
			Ok((st, b)) => (*st as i64, None, serde_json::from_slice::<Value>(b).is_ok()),
			Err(m) => (-1, Some(m.chars().take(300).collect::<String>()), false),
		};
		out.line(&json!({"kind": "foreign_post", "method": method, "case": what, "in": body.to_hex(), "status": status,
			"panic": panic, "reply_is_json": reply_json}));
	}
	out.finish();
	drop(h);
	drop(s);
	let _ = std::fs::remove_dir_all(&dir);
}
