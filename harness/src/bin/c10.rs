//! C10 correspondence + oracle runner: encrypted slatepacks are readable only by their
//! recipients and tamper-evident; plain armored slatepacks report corruption.
//!
//! Real LMDB wallets (vharness::scen::Scen, fixed mnemonics) provide 4 wallets x 4 derivation
//! indices = 16 slatepack addresses / ed25519 keys. For every case (a slate — structural
//! generator of C08 plus slates from a real send —, an optional sender address, a recipient
//! set of size 0..4):
//!   * owner::create_slatepack_message builds the armored message;
//!   * every one of the 16 keys reads it through owner::slate_from_slatepack_message,
//!     owner::decode_slatepack_message and Slatepacker::deser_slatepack (+ key lists, no key);
//!   * the message is base58-decoded independently: clear header bytes, payload field (the age
//!     box), the plaintext inside the box (own age identity), searched for the slate's bytes,
//!     its high-entropy fields and the sender's address / key in clear;
//!   * every single-byte edit of the binary encrypted slatepack (all 255 values in the clear
//!     17 bytes; three bit patterns, drop and insert at every position of the box; append) and
//!     every single-character edit of the armored text (change to another base58 character, a
//!     non-base58 character, a space, a period; drop; insert a base58 character / a space;
//!     transpose with the next character; positions sampled when the text is long) is read
//!     with a recipient key.
//! Verdict classes (shared with coq/theories/Box.v): 0 accepted with the original payload and
//! sender, 1 rejected, 2 panic, 3 accepted with something else, 4 (decode only) handed back
//! still sealed. Oracle: only recipients decrypt; nothing in clear; an accepted edit yields
//! the identical slate and sender, never a different one.
#[path = "codec_common/mod.rs"]
mod common;
use common::*;

use ed25519_dalek::SecretKey as DalekSecretKey;
use serde_json::{json, Value};
use sha2::{Digest, Sha256, Sha512};
use std::collections::BTreeMap;
use std::convert::TryFrom;
use std::sync::atomic::{AtomicUsize, Ordering};
use vharness::libwallet::api_impl::{foreign, owner};
use vharness::libwallet::slate_versions::v4::SlateV4;
use vharness::libwallet::{
	InitTxArgs, Slate, SlateVersion, Slatepack, SlatepackAddress, SlatepackBin, Slatepacker, SlatepackerArgs,
	VersionedBinSlate, VersionedSlate,
};
use vharness::prng::{seed_from_env, Prng};
use vharness::scen::{init_thread, Scen};
use vharness::*;

const NW: usize = 4;
const DIDX: [u32; 4] = [0, 1, 2, 9];
const B58: &[u8] = b"123456789ABCDEFGHJKLMNPQRSTUVWXYZabcdefghijkmnopqrstuvwxyz";
const WS: [u8; 5] = [b'>', b'\n', b'\r', b'\t', b' '];

#[derive(Clone)]
struct KeyEnt {
	addr: SlatepackAddress,
	text: String,
	secret: [u8; 32],
}

fn packer<'a>(key: Option<&'a DalekSecretKey>) -> Slatepacker<'a> {
	Slatepacker::new(SlatepackerArgs {
		sender: None,
		recipients: vec![],
		dec_key: key,
	})
}

fn sha256d4(b: &[u8]) -> [u8; 4] {
	let a = Sha256::digest(b);
	let c = Sha256::digest(&a);
	[c[0], c[1], c[2], c[3]]
}

/// independent reading of an armored text: payload between the first two periods, whitespace
/// dropped, base58, 4-byte check
fn own_dearmor(text: &[u8]) -> Result<Vec<u8>, String> {
	let d1 = text.iter().position(|c| *c == b'.').ok_or("no period")?;
	let d2 = text[d1 + 1..]
		.iter()
		.position(|c| *c == b'.')
		.ok_or("no second period")?
		+ d1 + 1;
	let clean: Vec<u8> = text[d1 + 1..d2].iter().cloned().filter(|c| !WS.contains(c)).collect();
	let dec = bs58::decode(&clean).into_vec().map_err(|e| format!("{:?}", e))?;
	if dec.len() < 4 || dec[..4] != sha256d4(&dec[4..]) {
		return Err("check".into());
	}
	Ok(dec[4..].to_vec())
}

fn find(hay: &[u8], needle: &[u8]) -> bool {
	!needle.is_empty() && hay.len() >= needle.len() && hay.windows(needle.len()).any(|w| w == needle)
}

fn slate_canon(sl: &Slate) -> Vec<u64> {
	canon_v4(&SlateV4::from(sl))
}

/// what the reader got, at the level of deser_slatepack: class and (for accepted ones) what
/// get_slate makes of the payload: 0 the original slate, 1 an error, 3 another slate
struct Read {
	class: u64,
	slate: u64,
	sender_same: bool,
}

struct Orig<'a> {
	slate_bin: &'a [u8],
	sender: &'a Option<String>,
	base: &'a [u64],
	box_: &'a [u8],
}

fn classify(o: &Orig, r: Result<Result<Slatepack, String>, String>, sealed_class: bool) -> Read {
	match r {
		Err(_) => Read { class: 2, slate: 1, sender_same: true },
		Ok(Err(_)) => Read { class: 1, slate: 1, sender_same: true },
		Ok(Ok(sp)) => {
			let sender = sp.sender.as_ref().map(|a| addr_string(a));
			let same = sp.mode == 0 && sp.payload == o.slate_bin && sender == *o.sender;
			let sealed = sp.mode == 1 && sp.payload == o.box_ && sender.is_none();
			let class = if sealed_class && sealed { 4 } else if same { 0 } else { 3 };
			let slate = match guarded(|| packer(None).get_slate(&sp)) {
				Ok(Ok(s)) => {
					if slate_canon(&s) == o.base {
						0
					} else {
						3
					}
				}
				Ok(Err(_)) => 1,
				Err(_) => 2,
			};
			Read { class, slate, sender_same: sender == *o.sender || sp.mode != 0 }
		}
	}
}

fn read_with(o: &Orig, key: Option<&DalekSecretKey>, data: &[u8]) -> Read {
	let r = guarded(|| packer(key).deser_slatepack(data, true).map_err(|e| e.to_string()));
	classify(o, r, false)
}

fn next58(c: u8) -> u8 {
	match B58.iter().position(|x| *x == c) {
		Some(i) => B58[(i + 1) % 58],
		None => b'A',
	}
}

fn apply_edit(k: u64, p: usize, v: u8, l: &[u8]) -> Vec<u8> {
	let mut o = Vec::with_capacity(l.len() + 1);
	match k {
		0 => {
			o.extend_from_slice(&l[..p]);
			o.push(v);
			o.extend_from_slice(&l[p + 1..]);
		}
		1 => {
			o.extend_from_slice(&l[..p]);
			o.extend_from_slice(&l[p + 1..]);
		}
		2 => {
			o.extend_from_slice(&l[..p]);
			o.push(v);
			o.extend_from_slice(&l[p..]);
		}
		_ => {
			o.extend_from_slice(l);
			if p + 1 < l.len() {
				o.swap(p, p + 1);
			}
		}
	}
	o
}

/// the binary edits in the order of Box.v `bin_edits_from`
fn bin_stride(n: usize) -> usize {
	if n <= 1000 {
		1
	} else {
		(n + 999) / 1000
	}
}
fn bin_edits(bin: &[u8], hdr: usize) -> Vec<(u64, usize, u8)> {
	let stride = bin_stride(bin.len());
	let mut v = vec![];
	for (pos, b) in bin.iter().enumerate() {
		if pos < hdr {
			for j in 0..255u32 {
				v.push((0, pos, ((*b as u32 + 1 + j) % 256) as u8));
			}
		} else if pos % stride == 0 {
			v.push((0, pos, b ^ 1));
			v.push((0, pos, b ^ 128));
			v.push((0, pos, b ^ 85));
		} else {
			continue;
		}
		v.push((1, pos, 0));
		v.push((2, pos, 65));
	}
	v.push((2, bin.len(), 65));
	v
}

fn armor_edits(t: &[u8], stride: usize) -> Vec<(u64, usize, u8)> {
	let mut v = vec![];
	let n = t.len();
	for pos in 0..n {
		// boundaries (framing, first/last payload characters) always, the rest by stride
		if !(pos < 24 || pos + 24 >= n || pos % stride == 0) {
			continue;
		}
		let c = t[pos];
		for x in [next58(c), b'0', b' ', b'.'].iter() {
			if *x != c {
				v.push((0, pos, *x));
			}
		}
		v.push((1, pos, 0));
		v.push((2, pos, b'A'));
		v.push((2, pos, b' '));
		if pos + 1 < n && t[pos + 1] != c {
			v.push((3, pos, 0));
		}
	}
	v.push((2, n, b'A'));
	v
}

struct Prep {
	case: Value,
	armor: Vec<u8>,
	bin: Vec<u8>,
	box_: Vec<u8>,
	plain: Option<Vec<u8>>,
	slate_bin: Vec<u8>,
	base: Vec<u64>,
	sender: Option<String>,
	rcpts: Vec<usize>,
	ek: usize,
	keys: Vec<Value>,
	multi: Vec<Value>,
	fails: Vec<String>,
}

fn kid(w: usize, j: usize) -> usize {
	w * DIDX.len() + j
}

fn as_pair(v: &Value) -> (usize, usize) {
	(v[0].as_u64().unwrap() as usize, v[1].as_u64().unwrap() as usize)
}

fn prepare(scen: &Scen, keys: &[KeyEnt], case: &Value) -> Result<Prep, String> {
	let canon: Vec<u64> = case["v4"]
		.as_array()
		.unwrap()
		.iter()
		.map(|x| x.as_u64().or_else(|| x.as_str().and_then(|s| s.parse().ok())).unwrap())
		.collect();
	let sl = Slate::from(v4_from_canon(&canon));
	let sender_wj = if case["sender"].is_null() { None } else { Some(as_pair(&case["sender"])) };
	let rcpts: Vec<usize> = case["recipients"]
		.as_array()
		.unwrap()
		.iter()
		.map(|x| {
			let (w, j) = as_pair(x);
			kid(w, j)
		})
		.collect();
	let mut fails = vec![];

	// the slate as the binary form carries it (C08's subject): what every reader must get
	let out = VersionedSlate::into_version(sl.clone(), SlateVersion::V4).map_err(|e| e.to_string())?;
	let bs = VersionedBinSlate::try_from(out).map_err(|e| e.to_string())?;
	let slate_bin = grin_wallet_util::byte_ser::to_bytes(&bs).map_err(|e| e.to_string())?;
	let base = {
		let sp = packer(None).create_slatepack(&sl).map_err(|e| e.to_string())?;
		slate_canon(&packer(None).get_slate(&sp).map_err(|e| e.to_string())?)
	};

	let (sw, sidx) = match sender_wj {
		Some((w, j)) => (w, Some(DIDX[j])),
		None => (0, None),
	};
	let sender = sender_wj.map(|(w, j)| keys[kid(w, j)].text.clone());
	let raddrs: Vec<SlatepackAddress> = rcpts.iter().map(|k| keys[*k].addr.clone()).collect();
	let text = guarded(|| {
		owner::create_slatepack_message(
			scen.wallets[sw].inst.clone(),
			scen.wallets[sw].mask.as_ref(),
			&sl,
			sidx,
			raddrs.clone(),
		)
		.map_err(|e| e.to_string())
	})
	.map_err(|p| format!("create_slatepack_message panicked: {}", p))??;
	let armor = text.clone().into_bytes();
	let bin = own_dearmor(&armor)?;
	let enc = !rcpts.is_empty();

	// the slatepack as any reader without a key sees it
	let seen = packer(None).deser_slatepack(&armor, false).map_err(|e| e.to_string())?;
	let box_ = seen.payload.clone();
	let mut plain = None;
	if enc {
		// clear structure (independent of the model): 9 constant bytes, length, box, nothing else
		if bin.len() < 17 || bin[..9] != [1u8, 0, 1, 0, 0, 0, 0, 0, 0] {
			fails.push(format!("clear header of the encrypted slatepack is {}", hex(&bin[..bin.len().min(24)])));
		} else {
			let mut l = [0u8; 8];
			l.copy_from_slice(&bin[9..17]);
			if u64::from_be_bytes(l) as usize != bin.len() - 17 || bin[17..] != box_[..] {
				fails.push("payload field of the encrypted slatepack is not exactly the rest of the message".into());
			}
		}
		if seen.sender.is_some() || seen.mode != 1 {
			fails.push(format!("encrypted slatepack shows mode {} sender {:?} in clear", seen.mode, seen.sender.as_ref().map(|a| addr_string(a))));
		}
		// nothing of the slate or the sender outside (or inside) the ciphertext in clear
		let v4 = SlateV4::from(&sl);
		let mut needles: Vec<(String, Vec<u8>)> = vec![("binary slate".into(), slate_bin.clone())];
		needles.push(("slate id".into(), v4.id.as_bytes().to_vec()));
		if v4.off.as_ref().iter().any(|b| *b != 0) {
			needles.push(("offset".into(), v4.off.as_ref().to_vec()));
		}
		for s in v4.sigs.iter() {
			needles.push(("participant key".into(), pk_bytes(&s.xs)));
			needles.push(("participant nonce".into(), pk_bytes(&s.nonce)));
		}
		if slate_bin.len() >= 24 {
			for i in (0..slate_bin.len() - 16).step_by(16) {
				let w = &slate_bin[i..i + 16];
				let mut d = w.to_vec();
				d.sort();
				d.dedup();
				if d.len() >= 8 {
					needles.push((format!("slate bytes {}..{}", i, i + 16), w.to_vec()));
				}
			}
		}
		if let Some((w, j)) = sender_wj {
			let k = &keys[kid(w, j)];
			needles.push(("sender address text".into(), k.text.clone().into_bytes()));
			needles.push(("sender ed25519 key".into(), k.addr.pub_key.as_bytes().to_vec()));
		}
		// the JSON form of the encrypted slatepack as its creator holds it (what a file written with
		// as_bin = false contains, and what Display prints)
		let json_form: Vec<u8> = if let Some((w, j)) = sender_wj {
			let sp = Slatepacker::new(SlatepackerArgs {
				sender: Some(keys[kid(w, j)].addr.clone()),
				recipients: raddrs.clone(),
				dec_key: None,
			})
			.create_slatepack(&sl);
			match sp {
				Ok(sp) => serde_json::to_string(&sp).unwrap_or_default().into_bytes(),
				Err(_) => vec![],
			}
		} else {
			vec![]
		};
		for (name, n) in needles.iter() {
			if find(&json_form, n) {
				fails.push(format!("{} occurs in clear in the JSON form of the encrypted slatepack [json-form-shows-sender]", name));
			}
			if find(&bin, n) {
				fails.push(format!("{} occurs in clear in the binary encrypted slatepack", name));
			}
			if find(&armor, n) {
				fails.push(format!("{} occurs in clear in the armored text", name));
			}
		}
		plain = age_decrypt_with(&keys[rcpts[0]].secret, &box_);
		if plain.is_none() {
			fails.push("harness could not open the box with the first recipient's age identity".into());
		}
	}

	let o = Orig { slate_bin: &slate_bin, sender: &sender, base: &base, box_: &box_ };
	// every key, three ways
	let mut krows = vec![];
	for w in 0..NW {
		for j in 0..DIDX.len() {
			let k = kid(w, j);
			let dk = DalekSecretKey::from_bytes(&keys[k].secret).unwrap();
			let r1 = read_with(&o, Some(&dk), &armor);
			let inst = scen.wallets[w].inst.clone();
			let mask = scen.wallets[w].mask.as_ref();
			let v2 = match guarded(|| {
				owner::slate_from_slatepack_message(inst.clone(), mask, text.clone(), vec![DIDX[j]])
			}) {
				Ok(Ok(s)) => {
					if slate_canon(&s) == base {
						0
					} else {
						3
					}
				}
				Ok(Err(_)) => 1,
				Err(_) => 2,
			};
			let r3 = classify(
				&o,
				guarded(|| {
					owner::decode_slatepack_message(inst.clone(), mask, text.clone(), vec![DIDX[j]])
						.map_err(|e| e.to_string())
				}),
				true,
			);
			let is_r = !enc || rcpts.contains(&k);
			let want = if is_r { (0, 0, 0) } else { (1, 1, 4) };
			if (r1.class, v2, r3.class) != want && fails.iter().filter(|f| f.starts_with("key w")).count() < 3 {
				fails.push(format!(
					"key w{}/{} ({}): deser {} slate_from {} decode {} — expected {:?}",
					w, DIDX[j], if is_r { "recipient" } else { "not a recipient" }, r1.class, v2, r3.class, want
				));
			}
			if !is_r && (r1.slate == 0 || v2 == 0 || r3.slate == 0) {
				fails.push(format!("key w{}/{} is not a recipient's but the slate came out", w, DIDX[j]));
			}
			krows.push(json!([k, r1.class, v2, r3.class]));
		}
	}
	// key lists (derivation indices of one wallet, in reverse order) and no key at all
	let mut multi = vec![];
	let mut lists: Vec<(usize, Vec<usize>)> = vec![(0, vec![])];
	let rw = if enc { rcpts[0] / DIDX.len() } else { 1 };
	lists.push((rw, (0..DIDX.len()).rev().collect()));
	if let Some(ow) = (0..NW).find(|w| !rcpts.iter().any(|k| k / DIDX.len() == *w)) {
		lists.push((ow, (0..DIDX.len()).rev().collect()));
	}
	for (w, js) in lists.iter() {
		let inst = scen.wallets[*w].inst.clone();
		let mask = scen.wallets[*w].mask.as_ref();
		let idx: Vec<u32> = js.iter().map(|j| DIDX[*j]).collect();
		let v2 = match guarded(|| owner::slate_from_slatepack_message(inst.clone(), mask, text.clone(), idx.clone())) {
			Ok(Ok(s)) => {
				if slate_canon(&s) == base {
					0
				} else {
					3
				}
			}
			Ok(Err(_)) => 1,
			Err(_) => 2,
		};
		let r3 = classify(
			&o,
			guarded(|| owner::decode_slatepack_message(inst.clone(), mask, text.clone(), idx.clone()).map_err(|e| e.to_string())),
			true,
		);
		let any_r = !enc || js.iter().any(|j| rcpts.contains(&kid(*w, *j)));
		let want = if any_r { (0, 0) } else { (1, 4) };
		if (v2, r3.class) != want {
			fails.push(format!("wallet w{} indices {:?}: slate_from {} decode {} — expected {:?}", w, idx, v2, r3.class, want));
		}
		let ks: Vec<usize> = js.iter().map(|j| kid(*w, *j)).collect();
		multi.push(json!([ks, v2, r3.class]));
	}
	let ek = if enc { rcpts[0] } else { 0 };
	// structured rewrites of the clear part of an encrypted message — what anybody can do without
	// a key (the armor check is recomputable): the optional clear fields are set to other values and
	// the message re-encoded. Whatever a recipient then accepts must still be the original slate
	// and the sender that was sealed inside.
	if enc {
		let dk = DalekSecretKey::from_bytes(&keys[ek].secret).unwrap();
		if let Ok(Ok(sp0)) = guarded(|| packer(None).deser_slatepack(&bin, false).map_err(|e| e.to_string())) {
			let other = keys.iter().find(|k| Some(&k.text) != sender.as_ref() && !rcpts.iter().any(|r| keys[*r].text == k.text));
			let mut variants: Vec<(&str, Slatepack)> = vec![];
			if let Some(o2) = other {
				let mut v = sp0.clone();
				v.sender = Some(o2.addr.clone());
				variants.push(("clear sender set to a stranger's address", v));
			}
			{
				let mut v = sp0.clone();
				v.sender = Some(keys[ek].addr.clone());
				variants.push(("clear sender set to the recipient's own address", v));
			}
			for (what, v) in variants {
				let forged = match grin_wallet_util::byte_ser::to_bytes(&SlatepackBin(v)) {
					Ok(b) => b,
					Err(_) => continue,
				};
				let r = read_with(&o, Some(&dk), &forged);
				let bad = r.class == 2 || r.slate == 2 || ((r.class == 0 || r.class == 3) && (r.slate == 3 || !r.sender_same));
				if bad {
					fails.push(format!(
						"rewritten clear header ({}) is accepted (class {}) and yields {}",
						what,
						r.class,
						if r.class == 2 || r.slate == 2 { "a panic" } else if r.slate == 3 { "a DIFFERENT slate" } else { "a different sender than the one sealed in the message" }
					));
				}
			}
		}
	}
	Ok(Prep {
		case: case.clone(),
		armor,
		bin,
		box_,
		plain,
		slate_bin,
		base,
		sender,
		rcpts,
		ek,
		keys: krows,
		multi,
		fails,
	})
}

fn region(pos: usize, n: usize) -> &'static str {
	if pos < 15 {
		"header"
	} else if pos + 16 >= n {
		"footer"
	} else {
		"payload"
	}
}

type E = (u64, usize, u8);
type R3 = (u64, u64, bool);

fn run_edits(p: &Prep, keys: &[KeyEnt], base: &[u8], es: &[E]) -> Vec<R3> {
	let o = Orig { slate_bin: &p.slate_bin, sender: &p.sender, base: &p.base, box_: &p.box_ };
	let dk = DalekSecretKey::from_bytes(&keys[p.ek].secret).unwrap();
	es.iter()
		.map(|e| {
			let data = apply_edit(e.0, e.1, e.2, base);
			let r = read_with(&o, Some(&dk), &data);
			(r.class, r.slate, r.sender_same)
		})
		.collect()
}

fn armor_stride(n: usize) -> usize {
	if n <= 1200 {
		1
	} else {
		(n + 1199) / 1200
	}
}

/// histograms, the exceptions of the binary run, the sample handed to the model, the oracle
fn summarize(p: &Prep, bes: &[E], brs: &[R3], aes: &[E], ars: &[R3], budget: usize) -> (Value, Vec<String>) {
	let mut fails = vec![];
	let check = |what: &str, e: &E, r: &R3, fails: &mut Vec<String>| {
		let (class, slate, sender_same) = *r;
		let bad = class == 2 || slate == 2 || ((class == 0 || class == 3) && (slate == 3 || (slate == 0 && !sender_same)));
		if bad && fails.len() < 6 {
			fails.push(format!(
				"{} edit (kind {}, position {}, value {}) is accepted (class {}) and yields {}",
				what,
				e.0,
				e.1,
				e.2,
				class,
				if class == 2 || slate == 2 { "a panic" } else if slate == 3 { "a DIFFERENT slate" } else { "a different sender" }
			));
		}
	};
	let mut bin_hist: BTreeMap<String, u64> = BTreeMap::new();
	let mut bin_exc = vec![];
	for (i, (e, r)) in bes.iter().zip(brs.iter()).enumerate() {
		check("binary", e, r, &mut fails);
		*bin_hist
			.entry(format!("{}:{}:{}", ["change", "drop", "insert"][e.0 as usize], if e.1 < 17 { "clear" } else { "box" }, r.0))
			.or_insert(0) += 1;
		if r.0 != 1 {
			bin_exc.push(json!([i, r.0]));
		}
	}
	let n = p.armor.len();
	let mut hist: BTreeMap<String, u64> = BTreeMap::new();
	let mut groups: BTreeMap<(u64, &'static str, u64), Vec<(u64, usize, u8, u64)>> = BTreeMap::new();
	for (e, r) in aes.iter().zip(ars.iter()) {
		check("armor", e, r, &mut fails);
		let rg = region(e.1, n);
		*hist
			.entry(format!("{}:{}:{}", ["change", "drop", "insert", "transpose"][e.0 as usize], rg, r.0))
			.or_insert(0) += 1;
		groups.entry((e.0, rg, r.0)).or_default().push((e.0, e.1, e.2, r.0));
	}
	// the edits handed to the model: round-robin over (kind, region, verdict) groups, spread
	// inside each group; accepted ones first
	let mut order: Vec<&(u64, &'static str, u64)> = groups.keys().collect();
	order.sort_by_key(|g| (g.2 == 1, g.0, g.1));
	let fr = [0.5, 0.25, 0.75, 0.1, 0.9, 0.4, 0.6];
	let mut sample = vec![];
	'outer: for round in 0..fr.len() {
		for g in order.iter() {
			let v = &groups[*g];
			if round < v.len() {
				let i = ((v.len() - 1) as f64 * fr[round]).round() as usize;
				if !sample.contains(&v[i]) {
					sample.push(v[i]);
				}
				if sample.len() >= budget {
					break 'outer;
				}
			}
		}
	}
	let sample_json: Vec<Value> = sample.iter().map(|e| json!([e.0, e.1, e.2, e.3])).collect();
	(
		json!({"bin_n": bes.len(), "bin_stride": bin_stride(p.bin.len()), "bin_exc": bin_exc, "bin_hist": bin_hist, "armor_n": aes.len(),
			"armor_stride": armor_stride(n), "armor_hist": hist, "armor_edits": sample_json}),
		fails,
	)
}

fn gen_cases(p: &mut Prng, pools: &Pools, n: u64, real: &[Vec<u64>]) -> Vec<Value> {
	let mut cs = vec![];
	for i in 0..n {
		let v4 = if (i as usize) < real.len() {
			real[i as usize].clone()
		} else {
			let big = i % 11 == 10;
			let mut v = gen_v4(
				p,
				pools,
				&GenOpt { wild: false, max_sigs: 3, max_coms: 3, proof_den: if big { 2 } else { 9 } },
			);
			if let Some(c) = v.coms.as_mut() {
				c.sort_by_key(|x| x.p.is_some());
				if !big {
					c.truncate(2);
				}
			}
			canon_v4(&v)
		};
		// recipient sets of size 0..4 (0 = plain), distinct keys, from one or several wallets
		let nr = (i % 5) as usize;
		let mut r: Vec<(usize, usize)> = vec![];
		while r.len() < nr {
			let c = if !r.is_empty() && p.chance(1, 3) {
				(r[0].0, p.below(DIDX.len() as u64) as usize) // another index of the same wallet
			} else {
				(p.below(NW as u64) as usize, p.below(DIDX.len() as u64) as usize)
			};
			if !r.contains(&c) {
				r.push(c);
			}
		}
		let sender = if p.chance(3, 4) {
			json!([p.below(NW as u64), p.below(DIDX.len() as u64)])
		} else {
			Value::Null
		};
		let v4s: Vec<String> = v4.iter().map(|x| x.to_string()).collect();
		cs.push(json!({"v4": v4s, "sender": sender, "recipients": r.iter().map(|x| json!([x.0, x.1])).collect::<Vec<_>>()}));
	}
	cs
}

fn main() {
	quiet_panics();
	init_thread();
	let out_path = arg("out").expect("--out");
	let dir = format!("/tmp/vh_c10_{}", std::process::id());
	let mut scen = Scen::new(&dir);
	for w in 0..NW {
		let ent = [(w as u8) * 29 + 3; 32];
		let phrase = vharness::keychain::mnemonic::from_entropy(&ent).unwrap();
		scen.add_wallet(&format!("w{}", w), Some(&phrase), w % 2 == 1);
	}
	let mut keys: Vec<KeyEnt> = vec![];
	for w in 0..NW {
		for j in 0..DIDX.len() {
			let inst = scen.wallets[w].inst.clone();
			let mask = scen.wallets[w].mask.as_ref();
			let addr = owner::get_slatepack_address(inst.clone(), mask, DIDX[j]).unwrap();
			let sk = owner::get_slatepack_secret_key(inst, mask, DIDX[j]).unwrap();
			let mut secret = [0u8; 32];
			secret.copy_from_slice(sk.as_bytes());
			keys.push(KeyEnt { text: addr_string(&addr), addr, secret });
		}
	}
	// probes of the assumptions about the key conversion: injective on the table, and the
	// x25519 identity derived from the secret belongs to the converted address
	let mut probe_fail = vec![];
	let mut xs = vec![];
	for k in keys.iter() {
		let xp = x25519_dalek::PublicKey::try_from(&k.addr).unwrap();
		let mut h = Sha512::new();
		h.update(&k.secret);
		let d = h.finalize();
		let mut b = [0u8; 32];
		b.copy_from_slice(&d[0..32]);
		let xsec = x25519_dalek::StaticSecret::from(b);
		if x25519_dalek::PublicKey::from(&xsec).as_bytes() != xp.as_bytes() {
			probe_fail.push(format!("x25519 identity of {} does not match its converted address", k.text));
		}
		let edpk = ed25519_dalek::PublicKey::from(&DalekSecretKey::from_bytes(&k.secret).unwrap());
		if edpk.as_bytes() != k.addr.pub_key.as_bytes() {
			probe_fail.push(format!("secret key and address of {} do not belong together", k.text));
		}
		xs.push(xp.as_bytes().to_vec());
	}
	let mut xd = xs.clone();
	xd.sort();
	xd.dedup();
	let mut td: Vec<String> = keys.iter().map(|k| k.text.clone()).collect();
	td.sort();
	td.dedup();
	if xd.len() != keys.len() || td.len() != keys.len() {
		probe_fail.push("address -> x25519 conversion is not injective on the key table".into());
	}

	let pools = Pools::new();
	let cases: Vec<Value> = if let Some(replay) = arg("replay") {
		let v: Value = serde_json::from_str(&std::fs::read_to_string(&replay).unwrap()).unwrap();
		if v.get("cases").is_some() {
			v["cases"].as_array().unwrap().clone()
		} else {
			vec![v["case"].clone()]
		}
	} else {
		// slates of a real send: S1 (init_send_tx), S2 (receive_tx), S3 (finalize_tx)
		let mut real = vec![];
		if arg_u64("real", 1) == 1 {
			scen.mine(0, 4);
			let s1 = scen
				.with(0, |w, m| {
					let args = InitTxArgs {
						amount: 2_000_000_000,
						minimum_confirmations: 1,
						max_outputs: 500,
						num_change_outputs: 1,
						selection_strategy_is_use_all: false,
						..Default::default()
					};
					owner::init_send_tx(w, m, args, false)
				})
				.unwrap();
			let s2 = scen.with(1, |w, m| foreign::receive_tx(w, m, &s1, None, false)).unwrap();
			scen.with(0, |w, m| owner::tx_lock_outputs(w, m, &s1)).unwrap();
			let s3 = scen.with(0, |w, m| owner::finalize_tx(w, m, &s2)).unwrap();
			for s in [&s1, &s2, &s3].iter() {
				real.push(slate_canon(s));
			}
		}
		let mut p = Prng::new(seed_from_env());
		gen_cases(&mut p, &pools, arg_u64("n", 30), &real)
	};

	// phase A: wallets (main thread)
	let mut preps: Vec<Result<Prep, String>> = vec![];
	for c in cases.iter() {
		preps.push(match guarded(|| prepare(&scen, &keys, c)) {
			Ok(r) => r,
			Err(p) => Err(format!("panic: {}", p)),
		});
	}
	// phase B: edits (worker threads, no wallet involved); the unit of work is a chunk of the
	// edits of one message
	let budget = arg_u64("model-edits", 24) as usize;
	let threads = arg_u64("threads", 16) as usize;
	let n = preps.len();
	let lists: Vec<(Vec<E>, Vec<E>)> = preps
		.iter()
		.map(|pr| match pr {
			Ok(p) => (
				if p.rcpts.is_empty() { vec![] } else { bin_edits(&p.bin, 17) },
				armor_edits(&p.armor, armor_stride(p.armor.len())),
			),
			Err(_) => (vec![], vec![]),
		})
		.collect();
	let mut tasks: Vec<(usize, bool, usize, usize)> = vec![];
	for (i, (b, a)) in lists.iter().enumerate() {
		for (is_armor, l) in [(false, b), (true, a)].iter() {
			let mut s0 = 0;
			while s0 < l.len() {
				let e0 = (s0 + 400).min(l.len());
				tasks.push((i, *is_armor, s0, e0));
				s0 = e0;
			}
		}
	}
	// long armored texts first (base58 decoding is quadratic)
	tasks.sort_by_key(|t| std::cmp::Reverse(if t.1 { preps[t.0].as_ref().map(|p| p.armor.len()).unwrap_or(0) } else { 0 }));
	let next = AtomicUsize::new(0);
	let (t_armor, t_bin) = (AtomicUsize::new(0), AtomicUsize::new(0));
	let done: std::sync::Mutex<Vec<(usize, bool, usize, Vec<R3>)>> = std::sync::Mutex::new(vec![]);
	std::thread::scope(|sc| {
		for _ in 0..threads {
			sc.spawn(|| {
				init_thread();
				loop {
					let t = next.fetch_add(1, Ordering::SeqCst);
					if t >= tasks.len() {
						break;
					}
					let (i, is_armor, s0, e0) = tasks[t];
					if let Ok(p) = &preps[i] {
						let (base, es) = if is_armor { (&p.armor, &lists[i].1[s0..e0]) } else { (&p.bin, &lists[i].0[s0..e0]) };
						let t0 = std::time::Instant::now();
						let r = match guarded(|| run_edits(p, &keys, base, es)) {
							Ok(r) => r,
							Err(_) => es.iter().map(|_| (2, 2, true)).collect(),
						};
						(if is_armor { &t_armor } else { &t_bin }).fetch_add(t0.elapsed().as_micros() as usize, Ordering::SeqCst);
						done.lock().unwrap().push((i, is_armor, s0, r));
					}
				}
			});
		}
	});
	if std::env::var("VERIF_LOUD").is_ok() {
		eprintln!("cpu: armor edits {} ms, binary edits {} ms", t_armor.load(Ordering::SeqCst) / 1000, t_bin.load(Ordering::SeqCst) / 1000);
	}
	let mut done = done.into_inner().unwrap();
	done.sort_by_key(|d| (d.0, d.1, d.2));
	let mut brs: Vec<Vec<R3>> = (0..n).map(|_| vec![]).collect();
	let mut ars: Vec<Vec<R3>> = (0..n).map(|_| vec![]).collect();
	for (i, is_armor, _, mut r) in done.into_iter() {
		if is_armor {
			ars[i].append(&mut r);
		} else {
			brs[i].append(&mut r);
		}
	}
	let results: Vec<std::sync::Mutex<Option<(Value, Vec<String>)>>> = (0..n)
		.map(|i| {
			std::sync::Mutex::new(match &preps[i] {
				Ok(p) => {
					let f = 1000.0 / p.armor.len().max(1) as f64;
					let b = ((budget as f64 * f * f) as usize).max(3).min(budget);
					Some(summarize(p, &lists[i].0, &brs[i], &lists[i].1, &ars[i], b))
				}
				Err(_) => None,
			})
		})
		.collect();

	let mut out = Out::create(&out_path);
	let pubs: Vec<String> = keys.iter().map(|k| hex(k.text.as_bytes())).collect();
	for (i, (c, pr)) in cases.iter().zip(preps.into_iter()).enumerate() {
		let row = match pr {
			Err(e) => json!({"id": i, "case": c, "impl": Value::Null, "oracle": [format!("could not build the message: {}", e)], "probe": probe_fail}),
			Ok(p) => {
				let (ed, mut f2) = results[i].lock().unwrap().take().unwrap_or((json!({}), vec!["no edit result".into()]));
				let mut fails = p.fails.clone();
				fails.append(&mut f2);
				json!({
					"id": i, "case": p.case,
					"impl": {
						"armor": hex(&p.armor), "bin": hex(&p.bin), "box": hex(&p.box_),
						"plain": p.plain.as_ref().map(|x| hex(x)), "slate_bin": hex(&p.slate_bin),
						"sender_text": p.sender.as_ref().map(|s| hex(s.as_bytes())),
						"rcpt_texts": p.rcpts.iter().map(|k| hex(keys[*k].text.as_bytes())).collect::<Vec<_>>(),
						"rcpts": p.rcpts, "pubs": pubs, "ek": p.ek, "keys": p.keys, "multi": p.multi, "edits": ed,
					},
					"oracle": fails, "probe": probe_fail,
				})
			}
		};
		out.line(&row);
	}
	out.finish();
	drop(scen);
	let _ = std::fs::remove_dir_all(&dir);
}
