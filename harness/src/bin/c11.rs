//! C11 correspondence + oracle runner: proof-carrying sends, mutations of the payment-proof
//! fields of the reply, alterations of the exported proof. The machinery (real wallets,
//! forging counterparty, wire round trip, abstract case printer, oracles with ed25519-dalek
//! and the chain) is shared with c02.rs; see the module comment there and `gen_script_c11`,
//! `verify_rows`, `PpEnv`.
#[path = "c02.rs"]
#[allow(dead_code)]
mod base;

fn main() {
	base::run_main(true)
}
