//! C12 — secrets never leave the wallet in clear; signing nonces are never reused.
//!
//! Modes (all print one JSON object per line into --out):
//!   --mode hist    scenario histories on real LMDB wallets: after every API call every file under
//!                  every wallet directory and every emitted slate / slatepack is scanned for the
//!                  wallets' secrets (seed, phrase, root key, context keys/nonces obtained through
//!                  get_private_context) in raw, hex and JSON-array form; each stored context
//!                  record is decoded from data.mdb and every field classified as
//!                  secret^blind-mask / secret^nonce-mask / clear; the participant entries every
//!                  wallet emits are collected (part c).
//!   --mode seed    seed-file round trips, wrong passwords and malformed files through
//!                  WalletLCProvider::{recover_from_mnemonic, get_mnemonic} (=> WalletSeed::
//!                  recover_from_phrase / from_file / EncryptedWalletSeed::{from_seed, decrypt}),
//!                  cross-checked with an independent PBKDF2 + ChaCha20-Poly1305 decryption.
//!   --mode fileops change_password / recover_from_mnemonic on prepared directories, bracketed by
//!                  marker syscalls so that an strace of this process yields the real order of
//!                  file operations; afterwards every prefix state (including torn writes) is
//!                  materialised in a scratch directory and opened with old / new / wrong
//!                  passwords through the real WalletSeed::from_file.
use serde_json::{json, Value};
use std::collections::{BTreeMap, BTreeSet};
use std::convert::TryFrom;
use std::path::{Path, PathBuf};
use vharness::core::core::hash::HashWriter;
use vharness::core::ser::Writer;
use vharness::impls::DefaultWalletImpl;
use vharness::keychain::{mnemonic, ExtKeychain, Keychain, SwitchCommitmentType};
use vharness::libwallet::api_impl::{foreign, owner};
use vharness::libwallet::{
	Context, Error, InitTxArgs, IssueInvoiceTxArgs, Slate, SlateVersion, Slatepacker,
	SlatepackerArgs, VersionedSlate, WalletInst, WalletLCProvider,
};
use vharness::node::{ChainNode, NodeCtl};
use vharness::prng::{seed_from_env, Prng};
use vharness::scen::{Scen, LC};
use vharness::util::secp::key::{PublicKey, SecretKey};
use vharness::util::{static_secp_instance, ToHex, ZeroingString};
use vharness::{arg, arg_u64, guarded, quiet_panics, Out};

// ------------------------------------------------------------------------------------------
// byte scanning

fn hex(b: &[u8]) -> String {
	b.to_vec().to_hex()
}
fn strip_ws(b: &[u8]) -> Vec<u8> {
	b.iter()
		.cloned()
		.filter(|c| !(*c == b' ' || *c == b'\n' || *c == b'\r' || *c == b'\t'))
		.collect()
}
fn json_array_form(b: &[u8]) -> Vec<u8> {
	b.iter()
		.map(|x| x.to_string())
		.collect::<Vec<_>>()
		.join(",")
		.into_bytes()
}

#[derive(Clone)]
struct Pattern {
	secret: usize, // index into Registry.secrets
	form: &'static str,
	bytes: Vec<u8>,
	stripped: bool, // search in the whitespace-stripped copy
}

#[derive(Clone)]
struct Secret {
	wallet: usize,
	label: String,
	bytes: Vec<u8>,
}

struct Registry {
	secrets: Vec<Secret>,
	patterns: Vec<Pattern>,
	table: Vec<Vec<u32>>, // 2-byte prefix -> pattern indices
}

impl Registry {
	fn new() -> Registry {
		Registry {
			secrets: vec![],
			patterns: vec![],
			table: vec![vec![]; 65536],
		}
	}
	fn add_pattern(&mut self, secret: usize, form: &'static str, bytes: Vec<u8>, stripped: bool) {
		if bytes.len() < 8 {
			return;
		}
		let k = ((bytes[0] as usize) << 8) | bytes[1] as usize;
		self.table[k].push(self.patterns.len() as u32);
		self.patterns.push(Pattern {
			secret,
			form,
			bytes,
			stripped,
		});
	}
	/// 32-byte (or 16..32) binary secret: raw, hex (both cases), JSON array of numbers
	fn add_binary(&mut self, wallet: usize, label: &str, bytes: &[u8]) {
		if self
			.secrets
			.iter()
			.any(|s| s.wallet == wallet && s.bytes == bytes)
		{
			return;
		}
		let i = self.secrets.len();
		self.secrets.push(Secret {
			wallet,
			label: label.to_owned(),
			bytes: bytes.to_vec(),
		});
		self.add_pattern(i, "raw", bytes.to_vec(), false);
		self.add_pattern(i, "hex", hex(bytes).into_bytes(), true);
		self.add_pattern(i, "HEX", hex(bytes).to_uppercase().into_bytes(), true);
		self.add_pattern(i, "json-array", json_array_form(bytes), true);
	}
	fn add_text(&mut self, wallet: usize, label: &str, text: &str) {
		let i = self.secrets.len();
		self.secrets.push(Secret {
			wallet,
			label: label.to_owned(),
			bytes: text.as_bytes().to_vec(),
		});
		self.add_pattern(i, "text", text.as_bytes().to_vec(), false);
		self.add_pattern(i, "text-nows", strip_ws(text.as_bytes()), true);
	}
	/// all occurrences of all patterns: (pattern index, offset, in stripped copy?)
	fn scan(&self, content: &[u8]) -> Vec<(usize, usize, Vec<u8>)> {
		let mut hits = vec![];
		let stripped = strip_ws(content);
		for (is_stripped, hay) in [(false, content), (true, &stripped[..])].iter() {
			if hay.len() < 2 {
				continue;
			}
			for i in 0..hay.len() - 1 {
				let k = ((hay[i] as usize) << 8) | hay[i + 1] as usize;
				let c = &self.table[k];
				if c.is_empty() {
					continue;
				}
				for pi in c {
					let p = &self.patterns[*pi as usize];
					if p.stripped != *is_stripped {
						continue;
					}
					if i + p.bytes.len() <= hay.len() && &hay[i..i + p.bytes.len()] == &p.bytes[..] {
						// what precedes the hit (for attribution to a JSON field)
						let lo = if i > 40 { i - 40 } else { 0 };
						hits.push((*pi as usize, i, hay[lo..i].to_vec()));
					}
				}
			}
		}
		hits
	}
}

fn walk(dir: &Path, out: &mut Vec<PathBuf>) {
	if let Ok(rd) = std::fs::read_dir(dir) {
		let mut es: Vec<_> = rd.filter_map(|e| e.ok()).collect();
		es.sort_by_key(|e| e.path());
		for e in es {
			let p = e.path();
			if p.is_dir() {
				walk(&p, out);
			} else {
				out.push(p);
			}
		}
	}
}

/// The name of the JSON field a hit sits in, if the bytes before it look like `"name":[`
fn preceding_field(before: &[u8]) -> Option<String> {
	let s = String::from_utf8_lossy(before).to_string();
	let s = s.trim_end_matches('[').trim_end_matches(':');
	if !s.ends_with('"') {
		return None;
	}
	let s = &s[..s.len() - 1];
	let start = s.rfind('"')?;
	Some(s[start + 1..].to_owned())
}

// ------------------------------------------------------------------------------------------
// stored context records, decoded straight from data.mdb

/// Every JSON object starting with {"parent_key_id": found in the (whitespace-free) bytes.
fn stored_context_candidates(content: &[u8]) -> Vec<Value> {
	let pat = b"{\"parent_key_id\":";
	let mut res = vec![];
	let mut i = 0;
	while i + pat.len() <= content.len() {
		if &content[i..i + pat.len()] == &pat[..] {
			// brace matching, strings skipped
			let mut depth = 0i32;
			let mut j = i;
			let mut in_str = false;
			let mut esc = false;
			let mut end = None;
			while j < content.len() && j < i + 200_000 {
				let c = content[j];
				if in_str {
					if esc {
						esc = false;
					} else if c == b'\\' {
						esc = true;
					} else if c == b'"' {
						in_str = false;
					}
				} else if c == b'"' {
					in_str = true;
				} else if c == b'{' {
					depth += 1;
				} else if c == b'}' {
					depth -= 1;
					if depth == 0 {
						end = Some(j);
						break;
					}
				}
				j += 1;
			}
			if let Some(e) = end {
				if let Ok(v) = serde_json::from_slice::<Value>(&content[i..=e]) {
					if v.get("sec_key").is_some() && v.get("sec_nonce").is_some() {
						res.push(v);
					}
				}
			}
		}
		i += 1;
	}
	res
}
fn field_bytes(v: &Value, name: &str) -> Option<Vec<u8>> {
	v.get(name)?
		.as_array()?
		.iter()
		.map(|x| x.as_u64().map(|y| y as u8))
		.collect()
}
fn xor(a: &[u8], b: &[u8]) -> Vec<u8> {
	a.iter().zip(b.iter()).map(|(x, y)| x ^ y).collect()
}
/// h(root_key | slate_id | tag), as private_ctx_xor_keys in impls/src/backends/lmdb.rs, recomputed
/// independently (grin_core HashWriter = unkeyed Blake2b-256).
fn ctx_mask(root_key: &SecretKey, slate_id: &[u8], tag: &[u8]) -> Vec<u8> {
	let mut h = HashWriter::default();
	h.write_fixed_bytes(&root_key.0[..]).unwrap();
	h.write_fixed_bytes(slate_id).unwrap();
	h.write_fixed_bytes(tag).unwrap();
	let mut out = [0u8; 32];
	h.finalize(&mut out);
	out.to_vec()
}
const FIELDS: [&str; 4] = ["sec_key", "sec_nonce", "initial_sec_key", "initial_sec_nonce"];

// ------------------------------------------------------------------------------------------
// history driver

const OP_INIT: u64 = 0;
const OP_RECV: u64 = 1;
const OP_FIN: u64 = 2;
const OP_INVOICE: u64 = 3;
const OP_PAY: u64 = 4;
const OP_FININV: u64 = 5;
const OP_CANCEL: u64 = 6;
const OP_REOPEN: u64 = 7;
const OP_MINE: u64 = 8;

struct Flow {
	creator: usize,
	invoice: bool,
	late: bool,
	phase: u8, // 1 after init/invoice, 2 after recv/pay, 3 finalised, 9 dead/cancelled
	payer: Option<usize>,
	msg: Option<Slate>, // latest message of the flow
	posted: bool,
}

fn pk_hex(k: &PublicKey) -> String {
	let secp = static_secp_instance();
	let secp = secp.lock();
	hex(&k.serialize_vec(&secp, true)[..])
}
fn sk_pub_hex(k: &SecretKey) -> String {
	let secp = static_secp_instance();
	let secp = secp.lock();
	match PublicKey::from_secret_key(&secp, k) {
		Ok(p) => hex(&p.serialize_vec(&secp, true)[..]),
		Err(_) => format!("invalid-secret-{}", hex(&k.0[..])),
	}
}
fn entries(s: &Slate) -> Vec<(String, String, bool)> {
	s.participant_data
		.iter()
		.map(|p| {
			(
				pk_hex(&p.public_nonce),
				pk_hex(&p.public_blind_excess),
				p.part_sig.is_some(),
			)
		})
		.collect()
}

/// All wire forms of a slate that the wallet hands out: V4 JSON, armored slatepack, the
/// slatepack's binary payload and the slatepack as JSON.
fn wire_forms(s: &Slate) -> Vec<(String, Vec<u8>)> {
	let mut v = vec![];
	if let Ok(vs) = VersionedSlate::into_version(s.clone(), SlateVersion::V4) {
		if let Ok(j) = serde_json::to_vec(&vs) {
			v.push(("slate-json".to_owned(), j));
		}
		if let Ok(j) = serde_json::to_vec_pretty(&vs) {
			v.push(("slate-json-pretty".to_owned(), j));
		}
	}
	let packer = Slatepacker::new(SlatepackerArgs {
		sender: None,
		recipients: vec![],
		dec_key: None,
	});
	if let Ok(sp) = packer.create_slatepack(s) {
		v.push(("slatepack-payload".to_owned(), sp.payload.clone()));
		if let Ok(j) = serde_json::to_vec(&sp) {
			v.push(("slatepack-json".to_owned(), j));
		}
		if let Ok(a) = packer.armor_slatepack(&sp) {
			v.push(("slatepack-armor".to_owned(), a.into_bytes()));
		}
	}
	// Debug / Display renderings end up in logs
	v.push(("slate-display".to_owned(), format!("{}", s).into_bytes()));
	v
}

struct Hist {
	scen: Scen,
	reg: Registry,
	root_keys: Vec<SecretKey>,
	flows: Vec<Flow>,
	test_rng: bool,
	hits: Vec<Value>,
	hit_keys: BTreeSet<String>,
	files_scanned: u64,
	bytes_scanned: u64,
	msgs_scanned: u64,
	/// offset of the last slate seen per slate id (a secret may leave as the DIFFERENCE of two offsets)
	last_offset: std::collections::HashMap<uuid::Uuid, vharness::keychain::BlindingFactor>,
}

impl Hist {
	fn register_ctx(&mut self, w: usize, f: usize, c: &Context) {
		self.reg
			.add_binary(w, &format!("w{}.flow{}.sec_key", w, f), &c.sec_key.0[..]);
		self.reg
			.add_binary(w, &format!("w{}.flow{}.sec_nonce", w, f), &c.sec_nonce.0[..]);
		self.reg.add_binary(
			w,
			&format!("w{}.flow{}.initial_sec_key", w, f),
			&c.initial_sec_key.0[..],
		);
		self.reg.add_binary(
			w,
			&format!("w{}.flow{}.initial_sec_nonce", w, f),
			&c.initial_sec_nonce.0[..],
		);
	}
	fn get_ctx(&self, w: usize, slate: &Slate) -> Result<Context, Error> {
		let id = slate.id;
		self.scen
			.with(w, |b, m| b.get_private_context(m, id.as_bytes()))
	}

	fn record_hit(&mut self, target: String, pi: usize, off: usize, before: &[u8], step: usize) {
		let p = &self.reg.patterns[pi];
		let s = &self.reg.secrets[p.secret];
		let field = preceding_field(before);
		let key = format!("{}|{}|{}|{:?}", target, s.label, p.form, field);
		if self.hit_keys.contains(&key) {
			return;
		}
		self.hit_keys.insert(key);
		self.hits.push(json!({
			"step": step, "where": target, "secret": s.label, "secret_owner": s.wallet,
			"form": p.form, "offset": off, "json_field": field,
			"before": String::from_utf8_lossy(before).to_string(),
		}));
	}

	/// Scan every file below every wallet directory.
	fn scan_files(&mut self, step: usize) {
		for w in 0..self.scen.wallets.len() {
			let top = format!("{}/{}", self.scen.dir, self.scen.wallets[w].name);
			let mut files = vec![];
			walk(Path::new(&top), &mut files);
			for f in files {
				let content = match std::fs::read(&f) {
					Ok(c) => c,
					Err(_) => continue,
				};
				self.files_scanned += 1;
				self.bytes_scanned += content.len() as u64;
				let rel = f
					.strip_prefix(&self.scen.dir)
					.unwrap_or(&f)
					.to_string_lossy()
					.to_string();
				for (pi, off, before) in self.reg.scan(&content) {
					self.record_hit(format!("file:{}", rel), pi, off, &before, step);
				}
			}
		}
	}
	/// A secret key must not be recoverable from two slates by a subtraction: the offset of an
	/// emitted slate minus (or subtracted from) the offset of the previous slate with that id, or the
	/// offset itself, is compared with every known secret.
	fn scan_offset(&mut self, kind: &str, s: &Slate, step: usize) {
		use vharness::keychain::{BlindSum, BlindingFactor, ExtKeychain, Keychain};
		let kc = ExtKeychain::from_random_seed(true).unwrap();
		let cur = s.offset.clone();
		let mut cands: Vec<(String, Vec<u8>)> = vec![("offset".into(), cur.as_ref().to_vec())];
		if let Some(prev) = self.last_offset.get(&s.id).cloned() {
			for (name, a, b) in [("offset - previous offset", cur.clone(), prev.clone()), ("previous offset - offset", prev, cur.clone())].iter() {
				if let Ok(d) = kc.blind_sum(&BlindSum::new().add_blinding_factor(a.clone()).sub_blinding_factor(b.clone())) {
					cands.push((name.to_string(), d.as_ref().to_vec()));
				}
			}
		}
		let zero = BlindingFactor::zero();
		let _ = zero;
		for (name, bytes) in cands {
			if bytes.iter().all(|x| *x == 0) {
				continue;
			}
			if let Some(sec) = self.reg.secrets.iter().find(|x| x.bytes == bytes) {
				let key = format!("offsetdiff|{}|{}|{}", kind, sec.label, name);
				if !self.hit_keys.contains(&key) {
					self.hit_keys.insert(key);
					self.hits.push(json!({
						"step": step, "where": format!("msg:{}:offset", kind), "secret": sec.label, "secret_owner": sec.wallet,
						"form": name, "offset": 0, "json_field": "off",
						"before": "the secret equals this difference of two slate offsets (one subtraction recovers it)",
					}));
				}
			}
		}
		self.last_offset.insert(s.id, cur);
	}
	fn scan_msg(&mut self, kind: &str, s: &Slate, step: usize) {
		self.scan_offset(kind, s, step);
		for (form, bytes) in wire_forms(s) {
			self.msgs_scanned += 1;
			for (pi, off, before) in self.reg.scan(&bytes) {
				self.record_hit(format!("msg:{}:{}", kind, form), pi, off, &before, step);
			}
		}
	}

	/// Decode the stored 'p' record of (w, slate) from data.mdb and classify its four secret
	/// fields against the context the wallet itself returns: 0 = secret ^ blind pad,
	/// 1 = secret ^ nonce pad, 2 = clear, 4 = secret ^ initial-blind pad, 5 = secret ^
	/// initial-nonce pad, 3 = anything else. The identity of the secret is its
	/// public image (so that the numbering agrees with the participant entries).
	fn stored_record(&self, w: usize, slate: &Slate, ctx: &Context) -> Value {
		let path = format!(
			"{}/{}/wallet_data/db/lmdb/data.mdb",
			self.scen.dir, self.scen.wallets[w].name
		);
		let content = std::fs::read(&path).unwrap_or_default();
		let cands = stored_context_candidates(&content);
		let mb = ctx_mask(&self.root_keys[w], slate.id.as_bytes(), b"blind");
		let mn = ctx_mask(&self.root_keys[w], slate.id.as_bytes(), b"nonce");
		let mib = ctx_mask(&self.root_keys[w], slate.id.as_bytes(), b"initial_blind");
		let min = ctx_mask(&self.root_keys[w], slate.id.as_bytes(), b"initial_nonce");
		let clear: [&SecretKey; 4] = [
			&ctx.sec_key,
			&ctx.sec_nonce,
			&ctx.initial_sec_key,
			&ctx.initial_sec_nonce,
		];
		let mut vectors: BTreeSet<Vec<u64>> = BTreeSet::new();
		for c in &cands {
			let mut v = vec![];
			for (i, name) in FIELDS.iter().enumerate() {
				let st = match field_bytes(c, name) {
					Some(b) if b.len() == 32 => b,
					_ => {
						v.push(3);
						continue;
					}
				};
				let cl = &clear[i].0[..];
				let code = if st == xor(cl, &mb) {
					0
				} else if st == xor(cl, &mn) {
					1
				} else if st == cl {
					2
				} else if st == xor(cl, &mib) {
					4
				} else if st == xor(cl, &min) {
					5
				} else {
					3
				};
				v.push(code);
			}
			if v.iter().all(|x| *x != 3) {
				vectors.insert(v);
			}
		}
		let ids: Vec<String> = clear.iter().map(|k| sk_pub_hex(k)).collect();
		json!({"candidates": cands.len(),
			"enc": vectors.into_iter().collect::<Vec<_>>(),
			"ids": ids})
	}
}

fn args_for(amount: u64, late: bool) -> InitTxArgs {
	InitTxArgs {
		amount,
		minimum_confirmations: 1,
		max_outputs: 500,
		num_change_outputs: 1,
		selection_strategy_is_use_all: false,
		late_lock: Some(late),
		..Default::default()
	}
}

/// 0 ok, 1 error, 2 panic, 4 refused for lack of funds / fee drift (a property of the chain
/// state of the scenario, not of the secrets: such calls are left out of the comparison)
fn res_code<T>(r: &Result<Result<T, Error>, String>) -> u64 {
	match r {
		Ok(Ok(_)) => 0,
		Ok(Err(Error::NotEnoughFunds { .. })) | Ok(Err(Error::Fee(_))) => 4,
		Ok(Err(_)) => 1,
		Err(_) => 2,
	}
}
fn res_text<T>(r: &Result<Result<T, Error>, String>) -> String {
	match r {
		Ok(Ok(_)) => "ok".to_owned(),
		Ok(Err(e)) => format!("{:?}", e).chars().take(160).collect(),
		Err(p) => format!("panic: {}", p).chars().take(160).collect(),
	}
}

/// new = entries of `out` that are not in `inp`; echo = number of entries of `out` that are
fn diff_entries(inp: &Option<Slate>, out: &Slate) -> (Vec<(String, String, bool)>, usize) {
	let before: Vec<(String, String)> = inp
		.as_ref()
		.map(|s| entries(s).into_iter().map(|(a, b, _)| (a, b)).collect())
		.unwrap_or_default();
	let mut new = vec![];
	let mut echo = 0;
	for (n, k, s) in entries(out) {
		if before.contains(&(n.clone(), k.clone())) {
			echo += 1;
		} else {
			new.push((n, k, s));
		}
	}
	(new, echo)
}

fn run_history(case: &Value, dir: &str) -> Value {
	let masks: Vec<bool> = case["masks"]
		.as_array()
		.map(|a| a.iter().map(|x| x.as_bool().unwrap_or(false)).collect())
		.unwrap_or(vec![false, true]);
	let test_rng = case["test_rng"].as_bool().unwrap_or(false);
	let ops: Vec<Vec<u64>> = case["ops"]
		.as_array()
		.map(|a| {
			a.iter()
				.map(|o| {
					o.as_array()
						.map(|x| x.iter().map(|y| y.as_u64().unwrap_or(0)).collect())
						.unwrap_or_default()
				})
				.collect()
		})
		.unwrap_or_default();
	let premine = case["premine"].as_u64().unwrap_or(5) as usize;

	let mut scen = Scen::new(dir);
	for (i, m) in masks.iter().enumerate() {
		scen.add_wallet(&format!("w{}", i), None, *m);
	}
	let nw = masks.len();
	for i in 0..nw {
		scen.mine(i, premine);
	}
	scen.mine(0, 3);

	let mut h = Hist {
		scen,
		reg: Registry::new(),
		root_keys: vec![],
		flows: vec![],
		test_rng,
		hits: vec![],
		hit_keys: BTreeSet::new(),
		files_scanned: 0,
		bytes_scanned: 0,
		msgs_scanned: 0,
		last_offset: Default::default(),
	};
	// long-lived secrets: recovery phrase, seed entropy, root key
	for w in 0..nw {
		let phrase = {
			let mut l = h.scen.wallets[w].inst.lock();
			let lc = l.lc_provider().unwrap();
			lc.get_mnemonic(None, ZeroingString::from("")).unwrap()
		};
		let phrase: String = (&*phrase).to_owned();
		let entropy = mnemonic::to_entropy(&phrase).unwrap();
		h.reg.add_text(w, &format!("w{}.phrase", w), &phrase);
		h.reg.add_binary(w, &format!("w{}.seed", w), &entropy);
		let rk = h.scen.with(w, |b, m| {
			b.keychain(m).unwrap().derive_key(
				0,
				&ExtKeychain::root_key_id(),
				SwitchCommitmentType::Regular,
			)
		});
		let rk = rk.unwrap();
		h.reg
			.add_binary(w, &format!("w{}.root_key", w), &rk.0[..]);
		h.root_keys.push(rk);
	}
	if test_rng {
		// the fixed test-RNG secrets are known in advance: also the receiver's context, which is
		// never stored, can be searched for
		use rand::rngs::mock::StepRng;
		let secp = static_secp_instance();
		let secp = secp.lock();
		let ki = SecretKey::new(&secp, &mut StepRng::new(1_234_567_890_u64, 1));
		let kr = SecretKey::new(&secp, &mut StepRng::new(1_234_567_891_u64, 1));
		for w in 0..nw {
			h.reg.add_binary(w, "testrng.initiator_key", &ki.0[..]);
			h.reg.add_binary(w, "testrng.responder_key", &kr.0[..]);
			h.reg.add_binary(w, "testrng.nonce", &[1u8; 32]);
		}
	}
	h.scan_files(0);

	let mut steps = vec![];
	let amount_base = 1_000_000_000u64;
	for (si, op) in ops.iter().enumerate() {
		let step_no = si + 1;
		let code = op.get(0).cloned().unwrap_or(99);
		let w = op.get(1).cloned().unwrap_or(0) as usize % nw;
		let f = op.get(2).cloned().unwrap_or(0) as usize;
		let flag = op.get(3).cloned().unwrap_or(0) != 0;
		let mut step = json!({"op": op, "res": 3, "rec": Value::Null, "new": [], "echo": 0});
		let tr = test_rng;
		match code {
			OP_INIT | OP_INVOICE => {
				let amount = amount_base + (si as u64) * 1_000_000;
				let r = guarded(|| {
					h.scen.with(w, |b, m| {
						if code == OP_INIT {
							let sl = owner::init_send_tx(b, m, args_for(amount, flag), tr)?;
							if !flag {
								owner::tx_lock_outputs(b, m, &sl)?;
							}
							Ok(sl)
						} else {
							owner::issue_invoice_tx(
								b,
								m,
								IssueInvoiceTxArgs {
									dest_acct_name: None,
									amount,
									target_slate_version: None,
								},
								tr,
							)
						}
					})
				});
				step["res"] = json!(res_code(&r));
				step["res_text"] = json!(res_text(&r));
				let mut fl = Flow {
					creator: w,
					invoice: code == OP_INVOICE,
					late: flag,
					phase: 9,
					payer: None,
					msg: None,
					posted: false,
				};
				if let Ok(Ok(sl)) = r {
					fl.phase = 1;
					let fidx = h.flows.len();
					if let Ok(c) = h.get_ctx(w, &sl) {
						h.register_ctx(w, fidx, &c);
						step["rec"] = h.stored_record(w, &sl, &c);
					}
					let (new, echo) = diff_entries(&None, &sl);
					step["new"] = json!(new);
					step["echo"] = json!(echo);
					h.scan_msg(if code == OP_INIT { "S1" } else { "I1" }, &sl, step_no);
					fl.msg = Some(sl);
				}
				h.flows.push(fl);
			}
			OP_RECV | OP_PAY => {
				if f < h.flows.len() && h.flows[f].msg.is_some() && h.flows[f].phase != 9 {
					let inp = h.flows[f].msg.clone().unwrap();
					let amount = inp.amount;
					let r = guarded(|| {
						h.scen.with(w, |b, m| {
							if code == OP_RECV {
								foreign::receive_tx(b, m, &inp, None, tr)
							} else {
								let sl = owner::process_invoice_tx(
									b,
									m,
									&inp,
									args_for(amount, false),
									tr,
								)?;
								owner::tx_lock_outputs(b, m, &sl)?;
								Ok(sl)
							}
						})
					});
					step["res"] = json!(res_code(&r));
					step["res_text"] = json!(res_text(&r));
					if res_code(&r) == 4 {
						// out of funds in this scenario: the flow cannot go on as generated
						h.flows[f].phase = 9;
					}
					if let Ok(Ok(sl)) = r {
						if code == OP_PAY {
							if let Ok(c) = h.get_ctx(w, &sl) {
								h.register_ctx(w, f, &c);
								step["rec"] = h.stored_record(w, &sl, &c);
							}
							h.flows[f].payer = Some(w);
						}
						let (new, echo) = diff_entries(&Some(inp), &sl);
						step["new"] = json!(new);
						step["echo"] = json!(echo);
						h.scan_msg(if code == OP_RECV { "S2" } else { "I2" }, &sl, step_no);
						if h.flows[f].phase == 1 {
							h.flows[f].phase = 2;
							h.flows[f].msg = Some(sl);
						}
					}
				}
			}
			OP_FIN | OP_FININV => {
				if f < h.flows.len() && h.flows[f].msg.is_some() && h.flows[f].phase != 9 {
					let inp = h.flows[f].msg.clone().unwrap();
					// the context is deleted by a successful finalize: fetch it first
					let before = h.get_ctx(w, &inp).ok();
					if let Some(c) = &before {
						h.register_ctx(w, f, c);
					}
					let r = guarded(|| {
						h.scen.with(w, |b, m| {
							if code == OP_FIN {
								owner::finalize_tx(b, m, &inp)
							} else {
								foreign::finalize_tx(b, m, &inp, false)
							}
						})
					});
					step["res"] = json!(res_code(&r));
					step["res_text"] = json!(res_text(&r));
					if res_code(&r) == 4 {
						h.flows[f].phase = 9;
					}
					step["ctx_after"] = json!(h.get_ctx(w, &inp).is_ok());
					step["n_in"] = json!(inp.participant_data.len());
					if let Ok(Ok(sl)) = r {
						let (new, echo) = diff_entries(&Some(inp), &sl);
						step["new"] = json!(new);
						step["echo"] = json!(echo);
						h.scan_msg(if code == OP_FIN { "S3" } else { "I3" }, &sl, step_no);
						if h.flows[f].phase == 2 {
							h.flows[f].phase = 3;
							h.flows[f].msg = Some(sl);
						}
					}
				}
			}
			OP_CANCEL => {
				if f < h.flows.len() && h.flows[f].msg.is_some() {
					let id = h.flows[f].msg.as_ref().unwrap().id;
					let inst = h.scen.wallets[w].inst.clone();
					let mask = h.scen.wallets[w].mask.clone();
					let r = guarded(|| owner::cancel_tx(inst, mask.as_ref(), &None, None, Some(id)));
					step["res"] = json!(0);
					step["cancel_res"] = json!(res_text(&r));
					let sl = h.flows[f].msg.clone().unwrap();
					step["ctx_after"] = json!(h.get_ctx(w, &sl).is_ok());
					h.flows[f].phase = 9;
				}
			}
			OP_REOPEN => {
				h.scen.reopen(w);
				step["res"] = json!(0);
			}
			OP_MINE => {
				let client = h.scen.node.client();
				for fl in h.flows.iter_mut() {
					if fl.phase == 3 && !fl.posted {
						if let Some(sl) = &fl.msg {
							if let Ok(tx) = sl.tx_or_err() {
								let _ = guarded(|| owner::post_tx(&client, tx, false));
							}
						}
						fl.posted = true;
					}
				}
				let _ = guarded(|| h.scen.mine_pool(w));
				let _ = guarded(|| h.scen.mine((w + 1) % nw, 1));
				for i in 0..nw {
					let inst = h.scen.wallets[i].inst.clone();
					let mask = h.scen.wallets[i].mask.clone();
					let _ = guarded(|| {
						owner::retrieve_summary_info(inst, mask.as_ref(), &None, true, 1)
					});
				}
				step["res"] = json!(0);
			}
			_ => {}
		}
		h.scan_files(step_no);
		steps.push(step);
	}
	// tx log / stored tx retrieval is another way data leaves the wallet: scan it once
	for w in 0..nw {
		let inst = h.scen.wallets[w].inst.clone();
		let mask = h.scen.wallets[w].mask.clone();
		if let Ok(Ok((_, txs))) =
			guarded(|| owner::retrieve_txs(inst, mask.as_ref(), &None, false, None, None, None))
		{
			if let Ok(j) = serde_json::to_vec(&txs) {
				h.msgs_scanned += 1;
				for (pi, off, before) in h.reg.scan(&j) {
					h.record_hit(format!("msg:retrieve_txs:w{}", w), pi, off, &before, ops.len());
				}
			}
		}
	}
	let n_secrets = h.reg.secrets.len();
	let out = json!({
		"case": case, "steps": steps, "hits": h.hits,
		"stats": {"files_scanned": h.files_scanned, "bytes_scanned": h.bytes_scanned,
			"msgs_scanned": h.msgs_scanned, "secrets": n_secrets,
			"patterns": h.reg.patterns.len()},
	});
	drop(h);
	let _ = std::fs::remove_dir_all(dir);
	out
}

/// Protocol-respecting random history over two wallets with arbitrary interleaving of flows,
/// self-sends, late locks, cancels, reopen and mining, plus a few deliberately invalid calls
/// (second receive of the same slate, finalize by a wallet that has no context).
fn gen_history(rng: &mut Prng, n_ops: usize) -> Value {
	struct G {
		creator: usize,
		invoice: bool,
		late: bool,
		phase: u8,
		receivers: Vec<usize>,
	}
	let mut flows: Vec<G> = vec![];
	let mut ops: Vec<Vec<u64>> = vec![];
	let mut open_sends = [0usize; 2];
	while ops.len() < n_ops {
		let w = rng.below(2) as usize;
		let live: Vec<usize> = (0..flows.len()).filter(|i| flows[*i].phase < 3).collect();
		let r = rng.below(100);
		if r < 22 || live.is_empty() {
			if open_sends[w] >= 3 {
				ops.push(vec![OP_MINE, w as u64, 0, 0]);
				continue;
			}
			let late = rng.chance(1, 3);
			flows.push(G {
				creator: w,
				invoice: false,
				late,
				phase: 1,
				receivers: vec![],
			});
			open_sends[w] += 1;
			ops.push(vec![OP_INIT, w as u64, (flows.len() - 1) as u64, late as u64]);
		} else if r < 34 {
			flows.push(G {
				creator: w,
				invoice: true,
				late: false,
				phase: 1,
				receivers: vec![],
			});
			ops.push(vec![OP_INVOICE, w as u64, (flows.len() - 1) as u64, 0]);
		} else if r < 84 {
			// advance a live flow
			let f = *rng.pick(&live);
			let g = &mut flows[f];
			let selfish = rng.chance(1, 4);
			match (g.invoice, g.phase) {
				(false, 1) => {
					let rw = if selfish { g.creator } else { 1 - g.creator };
					g.receivers.push(rw);
					g.phase = 2;
					ops.push(vec![OP_RECV, rw as u64, f as u64, 0]);
				}
				(false, 2) => {
					g.phase = 3;
					open_sends[g.creator] = open_sends[g.creator].saturating_sub(1);
					ops.push(vec![OP_FIN, g.creator as u64, f as u64, 0]);
				}
				(true, 1) => {
					let pw = if selfish { g.creator } else { 1 - g.creator };
					if open_sends[pw] >= 3 {
						ops.push(vec![OP_MINE, pw as u64, 0, 0]);
						continue;
					}
					g.receivers.push(pw);
					g.phase = 2;
					open_sends[pw] += 1;
					ops.push(vec![OP_PAY, pw as u64, f as u64, 0]);
				}
				(true, 2) => {
					g.phase = 3;
					let pw = g.receivers[0];
					open_sends[pw] = open_sends[pw].saturating_sub(1);
					ops.push(vec![OP_FININV, g.creator as u64, f as u64, 0]);
				}
				_ => {}
			}
		} else if r < 88 {
			// cancel by the creator (late-locked sends have nothing to cancel: still issued)
			let f = *rng.pick(&live);
			let g = &mut flows[f];
			g.phase = 9;
			if !g.invoice {
				open_sends[g.creator] = open_sends[g.creator].saturating_sub(1);
			} else if let Some(pw) = g.receivers.get(0) {
				open_sends[*pw] = open_sends[*pw].saturating_sub(1);
			}
			ops.push(vec![OP_CANCEL, g.creator as u64, f as u64, 0]);
		} else if r < 91 {
			// invalid: receive the same slate a second time on the same wallet
			let c: Vec<usize> = live
				.iter()
				.cloned()
				.filter(|i| !flows[*i].invoice && flows[*i].phase == 2)
				.collect();
			if let Some(f) = c.get(0) {
				// the flow's current message is S2 by now; receive_tx refuses on the tx log entry
				ops.push(vec![OP_RECV, flows[*f].receivers[0] as u64, *f as u64, 1]);
			}
		} else if r < 94 {
			// invalid: finalize by the wallet that holds no context for this slate
			let c: Vec<usize> = live
				.iter()
				.cloned()
				.filter(|i| {
					!flows[*i].invoice && flows[*i].phase == 2 && flows[*i].receivers[0] != flows[*i].creator
				})
				.collect();
			if let Some(f) = c.get(0) {
				ops.push(vec![OP_FIN, (1 - flows[*f].creator) as u64, *f as u64, 1]);
			}
		} else if r < 97 {
			ops.push(vec![OP_REOPEN, w as u64, 0, 0]);
		} else {
			ops.push(vec![OP_MINE, w as u64, 0, 0]);
		}
	}
	json!({"kind": "hist", "masks": [rng.coin(), rng.coin()], "test_rng": false, "premine": 5, "ops": ops})
}

fn fixed_histories() -> Vec<Value> {
	let mut v = vec![];
	// every flow once, plain and self-sent, fresh RNG
	v.push(json!({"kind":"hist","masks":[false,true],"test_rng":false,"premine":5,"ops":[
		[0,0,0,0],[1,1,0,0],[2,0,0,0],            // send 0 -> 1
		[3,1,1,0],[4,0,1,0],[5,1,1,0],            // invoice by 1 paid by 0
		[0,0,2,1],[1,1,2,0],[2,0,2,0],            // late-lock send
		[8,0,0,0],
		[0,0,3,0],[1,0,3,0],[2,0,3,0],            // self-send
		[3,0,4,0],[4,0,4,0],[5,0,4,0],            // self-sent invoice
		[0,1,5,0],[6,1,5,0],                      // cancel
		[0,0,6,1],[1,0,6,0],[7,0,0,0],[2,0,6,0],  // late-lock self-send across a reopen
		[8,1,0,0]]}));
	// the fixed test RNG makes the receiver's (never stored) context known: single flows only,
	// because the test mode also fixes the slate id
	for ops in vec![
		json!([[0, 0, 0, 0], [1, 1, 0, 0], [2, 0, 0, 0]]),
		json!([[3, 1, 0, 0], [4, 0, 0, 0], [5, 1, 0, 0]]),
		json!([[0, 0, 0, 1], [1, 1, 0, 0], [2, 0, 0, 0]]),
		json!([[0, 0, 0, 0], [1, 0, 0, 0], [2, 0, 0, 0]]),
	] {
		v.push(json!({"kind":"hist","masks":[true,false],"test_rng":true,"premine":4,"ops":ops}));
	}
	v
}

fn mode_hist(out: &mut Out) {
	let base = format!("/tmp/vh_c12_{}", std::process::id());
	let _ = std::fs::create_dir_all(&base);
	let mut cases = vec![];
	if let Some(f) = arg("replay") {
		let v: Value = serde_json::from_str(&std::fs::read_to_string(&f).expect("replay file")).unwrap();
		let c = if v.get("case").is_some() { v["case"].clone() } else { v };
		cases.push(c);
	} else {
		let n = arg_u64("n", 4) as usize;
		let len = arg_u64("len", 24) as usize;
		let shard = arg_u64("shard", 0);
		if arg_u64("fixed", 0) == 1 {
			cases.extend(fixed_histories());
		}
		let mut rng = Prng::new(seed_from_env().wrapping_mul(1_000_003).wrapping_add(shard));
		for _ in 0..n {
			cases.push(gen_history(&mut rng, len));
		}
	}
	for (i, c) in cases.iter().enumerate() {
		if c["kind"] != "hist" {
			continue;
		}
		let dir = format!("{}/h{}", base, i);
		let r = match guarded(|| run_history(c, &dir)) {
			Ok(v) => v,
			Err(p) => json!({"case": c, "harness_panic": p}),
		};
		out.line(&r);
		let _ = std::fs::remove_dir_all(&dir);
	}
	let _ = std::fs::remove_dir_all(&base);
}


// ------------------------------------------------------------------------------------------
// seed file (part b)

type Inst = Box<dyn WalletInst<'static, LC, ChainNode, ExtKeychain>>;

fn new_lc(node: &std::sync::Arc<NodeCtl>, top: &str) -> Inst {
	let mut wallet = Box::new(DefaultWalletImpl::<'static, ChainNode>::new(node.client()).unwrap())
		as Inst;
	let lc = wallet.lc_provider().unwrap();
	let _ = lc.set_top_level_directory(top);
	wallet
}
fn seed_dir(top: &str) -> String {
	format!("{}/wallet_data", top)
}
fn phrase_of(seed: &[u8]) -> String {
	mnemonic::from_entropy(seed).expect("entropy length")
}
/// WalletSeed::from_file + to_mnemonic through the public lifecycle API.
/// 0 = opened and it is `orig`, 3 = opened but a different seed, 1 = Err, 2 = panic
fn try_open(inst: &mut Inst, pw: &str, orig: &str) -> u64 {
	let r = guarded(|| {
		let lc = inst.lc_provider().unwrap();
		lc.get_mnemonic(None, ZeroingString::from(pw))
	});
	match r {
		Ok(Ok(p)) => {
			if &*p == orig {
				0
			} else {
				3
			}
		}
		Ok(Err(_)) => 1,
		Err(_) => 2,
	}
}
fn from_hex_strict(s: &str) -> Option<Vec<u8>> {
	// same acceptance as grin_util::from_hex, without its char-boundary panic
	let s = s.trim().trim_start_matches("0x");
	if !s.is_ascii() || s.len() % 2 != 0 {
		return None;
	}
	(0..s.len())
		.step_by(2)
		.map(|i| u8::from_str_radix(&s[i..i + 2], 16).ok())
		.collect()
}
/// Independent reading of a seed file: PBKDF2-HMAC-SHA512 (100 rounds) + ChaCha20-Poly1305 via
/// ring, written from the file format only. Some(seed) or None.
fn indep_decrypt(file: &[u8], pw: &str) -> Option<Vec<u8>> {
	use ring::{aead, pbkdf2};
	let v: Value = serde_json::from_slice(file).ok()?;
	let enc = from_hex_strict(v.get("encrypted_seed")?.as_str()?)?;
	let salt = from_hex_strict(v.get("salt")?.as_str()?)?;
	let nonce = from_hex_strict(v.get("nonce")?.as_str()?)?;
	if nonce.len() < 12 {
		return None;
	}
	let mut key = [0u8; 32];
	pbkdf2::derive(
		pbkdf2::PBKDF2_HMAC_SHA512,
		std::num::NonZeroU32::new(100).unwrap(),
		&salt,
		pw.as_bytes(),
		&mut key,
	);
	let mut n = [0u8; 12];
	n.copy_from_slice(&nonce[0..12]);
	let k = aead::LessSafeKey::new(aead::UnboundKey::new(&aead::CHACHA20_POLY1305, &key).ok()?);
	let mut buf = enc.clone();
	let pt = k
		.open_in_place(aead::Nonce::assume_unique_for_key(n), aead::Aad::empty(), &mut buf)
		.ok()?;
	Some(pt.to_vec())
}

/// The key HMAC-SHA512 actually uses for a password: hashed when longer than the 128-byte
/// block, then (conceptually) zero padded: trailing zeros are immaterial.
fn hmac_key_norm(pw: &[u8]) -> Vec<u8> {
	use sha2::{Digest, Sha512};
	let mut k = if pw.len() > 128 {
		let mut h = Sha512::new();
		h.update(pw);
		h.finalize().to_vec()
	} else {
		pw.to_vec()
	};
	while k.last() == Some(&0) {
		k.pop();
	}
	k
}
fn hexs(b: &[u8]) -> String {
	hex(b)
}
/// Apply mutation (code, param) to a well-formed seed file. The codes are the constructors of
/// `mutation` in coq/theories/Secrets.v.
fn mutate_seed_file(file: &[u8], code: u64, param: u64) -> Vec<u8> {
	let mut v: Value = serde_json::from_slice(file).unwrap();
	let enc = from_hex_strict(v["encrypted_seed"].as_str().unwrap()).unwrap();
	let salt = from_hex_strict(v["salt"].as_str().unwrap()).unwrap();
	let nonce = from_hex_strict(v["nonce"].as_str().unwrap()).unwrap();
	let p = param as usize;
	match code {
		0 => {}
		1 => v["nonce"] = json!(hexs(&nonce[..p.min(nonce.len())])), // nonce truncated to p bytes
		2 => {
			let mut n = nonce.clone();
			n.extend(vec![0xabu8; p.max(1)]);
			v["nonce"] = json!(hexs(&n)); // nonce extended: first 12 bytes unchanged
		}
		3 => v["nonce"] = json!("zz".repeat(12)),       // not hex
		4 => v["nonce"] = json!(format!("{}a", hexs(&nonce))), // odd number of digits
		5 => {
			let mut n = nonce.clone();
			n[p % 12] ^= 1;
			v["nonce"] = json!(hexs(&n)); // different nonce
		}
		6 => {
			let mut x = salt.clone();
			x[p % 8] ^= 0x80;
			v["salt"] = json!(hexs(&x));
		}
		7 => v["salt"] = json!("not-hex!"),
		8 => v["salt"] = json!(""),
		9 => {
			let keep = enc.len().saturating_sub(p.max(1));
			v["encrypted_seed"] = json!(hexs(&enc[..keep])); // ciphertext cut short by p bytes
		}
		10 => {
			let mut x = enc.clone();
			let i = p % x.len();
			x[i] ^= 4;
			v["encrypted_seed"] = json!(hexs(&x));
		}
		11 => v["encrypted_seed"] = json!("xyz"),
		12 => v["encrypted_seed"] = json!(""),
		13 => v["nonce"] = json!("a\u{e9}b\u{e9}".repeat(6)), // non-ASCII, even byte length
		14 => {
			v.as_object_mut().unwrap().remove("nonce");
		}
		15 => {
			// not JSON: the file cut after p bytes
			let keep = p.min(file.len().saturating_sub(1));
			return file[..keep].to_vec();
		}
		16 => v["salt"] = json!("a\u{e9}b\u{e9}"),
		17 => v["encrypted_seed"] = json!("a\u{e9}b\u{e9}".repeat(8)),
		_ => {}
	}
	serde_json::to_vec_pretty(&v).unwrap()
}

fn gen_seed_cases(rng: &mut Prng, n: usize) -> Vec<Value> {
	let pws: Vec<String> = vec![
		"".into(),
		"a".into(),
		"passwoid".into(),
		"correct horse battery staple".into(),
		"\u{43f}\u{430}\u{440}\u{43e}\u{43b}\u{44c}-\u{5bc6}\u{7801}-\u{1f511}".into(),
		"e\u{301}".into(),
		"\u{e9}".into(),
		" leading and trailing ".into(),
		"line\nbreak\ttab".into(),
		"nul\u{0}inside".into(),
		"x".repeat(2000),
		"0".into(),
	];
	let lens = [16usize, 20, 24, 28, 32];
	let mut v = vec![];
	for i in 0..n {
		let pw = pws[i % pws.len()].clone();
		let len = lens[(i / pws.len() + i) % lens.len()];
		let seed = rng.bytes(len);
		let mut tries: Vec<String> = vec![
			format!("{}x", pw),
			format!(" {}", pw),
			format!("{}\u{0}", pw),
			pw.to_uppercase(),
			pws[(i + 1) % pws.len()].clone(),
		];
		if !pw.is_empty() {
			let mut c: Vec<char> = pw.chars().collect();
			c.pop();
			tries.push(c.into_iter().collect());
			tries.push("".into());
		}
		tries.retain(|t| *t != pw);
		// malformed variants of the file, opened with the right password
		let mut muts: Vec<Vec<u64>> = vec![vec![0, 0]];
		for k in 0..12 {
			muts.push(vec![1, k]);
		}
		muts.push(vec![2, 1 + rng.below(8)]);
		for c in [3u64, 4, 7, 8, 11, 12, 13, 14, 16, 17].iter() {
			muts.push(vec![*c, 0]);
		}
		muts.push(vec![5, rng.below(12)]);
		muts.push(vec![6, rng.below(8)]);
		muts.push(vec![9, 1 + rng.below(len as u64 + 15)]);
		muts.push(vec![9, len as u64 + 16]);
		muts.push(vec![10, rng.below(len as u64 + 16)]);
		muts.push(vec![15, rng.below(150)]);
		muts.push(vec![15, 0]);
		v.push(json!({"kind": "seed", "seed": seed, "pw": pw, "tries": tries, "muts": muts}));
	}
	v
}

fn run_seed_case(node: &std::sync::Arc<NodeCtl>, case: &Value, top: &str) -> Value {
	let seed: Vec<u8> = case["seed"]
		.as_array()
		.unwrap()
		.iter()
		.map(|x| x.as_u64().unwrap() as u8)
		.collect();
	let pw = case["pw"].as_str().unwrap().to_owned();
	let tries: Vec<String> = case["tries"]
		.as_array()
		.unwrap()
		.iter()
		.map(|x| x.as_str().unwrap().to_owned())
		.collect();
	let _ = std::fs::remove_dir_all(top);
	std::fs::create_dir_all(seed_dir(top)).unwrap();
	let phrase = phrase_of(&seed);
	let mut inst = new_lc(node, top);
	let mut oracle: Vec<String> = vec![];
	// encrypt: WalletSeed::recover_from_phrase -> EncryptedWalletSeed::from_seed
	let r = guarded(|| {
		let lc = inst.lc_provider().unwrap();
		lc.recover_from_mnemonic(ZeroingString::from(phrase.as_str()), ZeroingString::from(pw.as_str()))
	});
	let enc_cls = res_code(&r);
	let path = format!("{}/wallet.seed", seed_dir(top));
	let file = std::fs::read(&path).unwrap_or_default();
	// the file must not contain the seed or the phrase
	let mut reg = Registry::new();
	reg.add_binary(0, "seed", &seed);
	reg.add_text(0, "phrase", &phrase);
	for (pi, _, _) in reg.scan(&file) {
		oracle.push(format!("seed file contains {} in {} form", reg.secrets[reg.patterns[pi].secret].label, reg.patterns[pi].form));
	}
	let right = try_open(&mut inst, &pw, &phrase);
	let indep_right = match indep_decrypt(&file, &pw) {
		Some(s) if s == seed => 0,
		Some(_) => 3,
		None => 1,
	};
	if right != 0 {
		oracle.push(format!("the password the file was saved under does not open it (class {})", right));
	}
	let mut wrong = vec![];
	let mut indep_wrong = vec![];
	for t in &tries {
		let c = try_open(&mut inst, t, &phrase);
		// HMAC key normalisation: trailing NULs (and hashing of over-long keys) do not
		// change the key; such a password is the same password
		let expected = if hmac_key_norm(t.as_bytes()) == hmac_key_norm(pw.as_bytes()) { 0 } else { 1 };
		if c != expected {
			oracle.push(format!("password {:?} on a file saved under {:?} gives class {} (0 = the seed, 1 = error, 3 = a different seed, 2 = panic), expected {}", t, pw, c, expected));
		}
		wrong.push(c);
		indep_wrong.push(match indep_decrypt(&file, t) {
			Some(s) if s == seed => 0,
			Some(_) => 3,
			None => 1,
		});
	}
	// malformed files
	let mut mal = vec![];
	let mut indep_mal = vec![];
	if !file.is_empty() {
		for m in case["muts"].as_array().unwrap() {
			let code = m[0].as_u64().unwrap();
			let param = m[1].as_u64().unwrap();
			let f2 = mutate_seed_file(&file, code, param);
			std::fs::write(&path, &f2).unwrap();
			let c = try_open(&mut inst, &pw, &phrase);
			if c == 2 {
				oracle.push(format!("malformed seed file (mutation {} {}) panics in WalletSeed::from_file/decrypt", code, param));
			}
			if c == 3 {
				oracle.push(format!("malformed seed file (mutation {} {}) opens as a different seed", code, param));
			}
			mal.push(c);
			indep_mal.push(match indep_decrypt(&f2, &pw) {
				Some(s) if s == seed => 0,
				Some(_) => 3,
				None => 1,
			});
		}
		std::fs::write(&path, &file).unwrap();
	}
	let _ = std::fs::remove_dir_all(top);
	json!({"case": case, "enc": enc_cls, "right": right, "wrong": wrong, "mal": mal,
		"indep": {"right": indep_right, "wrong": indep_wrong, "mal": indep_mal},
		"file_len": file.len(), "oracle": oracle})
}

fn mode_seed(out: &mut Out) {
	let base = format!("/tmp/vh_c12_{}", std::process::id());
	let _ = std::fs::remove_dir_all(&base);
	std::fs::create_dir_all(&base).unwrap();
	vharness::scen::init_thread();
	let node = NodeCtl::new(&base);
	let mut cases = vec![];
	if let Some(f) = arg("replay") {
		let v: Value = serde_json::from_str(&std::fs::read_to_string(&f).expect("replay file")).unwrap();
		cases.push(if v.get("case").is_some() { v["case"].clone() } else { v });
	} else {
		let mut rng = Prng::new(seed_from_env().wrapping_mul(7_000_003));
		cases = gen_seed_cases(&mut rng, arg_u64("n", 24) as usize);
	}
	for (i, c) in cases.iter().enumerate() {
		if c["kind"] != "seed" {
			continue;
		}
		out.line(&run_seed_case(&node, c, &format!("{}/s{}", base, i)));
	}
	drop(node);
	let _ = std::fs::remove_dir_all(&base);
}

// ---- file operations of change_password / recover_from_mnemonic

fn marker(base: &str, what: &str, i: usize) {
	// shows up in an strace of this process as openat(".../C12MARK_<what>_<i>") = -1 ENOENT
	let _ = std::fs::File::open(format!("{}/C12MARK_{}_{}", base, what, i));
}
fn bak_name(i: u64) -> String {
	if i == 0 {
		"wallet.seed.bak".to_owned()
	} else {
		format!("wallet.seed.bak.{}", i)
	}
}
fn list_seed_files(dir: &str) -> BTreeMap<String, String> {
	let mut m = BTreeMap::new();
	if let Ok(rd) = std::fs::read_dir(dir) {
		for e in rd.filter_map(|e| e.ok()) {
			let n = e.file_name().to_string_lossy().to_string();
			if n.starts_with("wallet.seed") {
				m.insert(n, hex(&std::fs::read(e.path()).unwrap_or_default()));
			}
		}
	}
	m
}
/// A seed file sealing `seed` under `pw`, produced by the real code in a scratch directory.
fn make_seed_file(node: &std::sync::Arc<NodeCtl>, scratch: &str, seed: &[u8], pw: &str) -> Vec<u8> {
	let _ = std::fs::remove_dir_all(scratch);
	std::fs::create_dir_all(seed_dir(scratch)).unwrap();
	let mut inst = new_lc(node, scratch);
	let lc = inst.lc_provider().unwrap();
	lc.recover_from_mnemonic(
		ZeroingString::from(phrase_of(seed).as_str()),
		ZeroingString::from(pw),
	)
	.unwrap();
	let f = std::fs::read(format!("{}/wallet.seed", seed_dir(scratch))).unwrap();
	let _ = std::fs::remove_dir_all(scratch);
	f
}

const PW_OTHER: &str = "a third password";

fn gen_fileops_cases(rng: &mut Prng, n: usize) -> Vec<Value> {
	let bak_sets: Vec<Vec<u64>> = vec![
		vec![],
		vec![0],
		vec![0, 1],
		vec![1],
		vec![0, 1, 2],
		vec![0, 2],
		vec![2, 3],
		vec![0, 1, 2, 3, 4],
	];
	let pw_pairs = vec![
		("", "new"),
		("old", ""),
		("old pw", "new pw"),
		("same", "same"),
		("\u{43f}\u{430}\u{440}", "\u{5bc6}\u{7801}"),
	];
	let mut v = vec![];
	for i in 0..n {
		let baks = bak_sets[i % bak_sets.len()].clone();
		let (old, new) = pw_pairs[(i / 2) % pw_pairs.len()];
		// who the pre-existing backups belong to: [pw id (0 old, 1 new, 2 other), seed id (0 orig, 1 other)]
		let bak_desc: Vec<Vec<u64>> = baks
			.iter()
			.map(|_| vec![rng.below(3), rng.below(2)])
			.collect();
		let op = match i % 5 {
			0 | 1 | 2 => "change",
			_ => "recover",
		};
		// recover: 0 same phrase, 1 a different valid phrase, 2 an invalid phrase
		let phrase_kind = if op == "recover" { (i as u64 / 5) % 3 } else { 0 };
		let no_seed_file = op == "recover" && i % 10 == 9;
		let seed_len = [16u64, 24, 32][i % 3];
		v.push(json!({"kind": "fileops", "op": op, "baks": baks, "bak_desc": bak_desc, "old": old, "new": new,
			"seed_len": seed_len, "phrase_kind": phrase_kind, "no_seed_file": no_seed_file,
			"wrong_old": op == "change" && i % 7 == 5}));
	}
	v
}

fn mode_fileops(out: &mut Out) {
	let base = arg("dir").unwrap_or(format!("/tmp/vh_c12_{}", std::process::id()));
	let _ = std::fs::remove_dir_all(&base);
	std::fs::create_dir_all(&base).unwrap();
	vharness::scen::init_thread();
	let node = NodeCtl::new(&base);
	let mut cases = vec![];
	if let Some(f) = arg("replay") {
		let v: Value = serde_json::from_str(&std::fs::read_to_string(&f).expect("replay file")).unwrap();
		cases.push(if v.get("case").is_some() { v["case"].clone() } else { v });
	} else {
		let mut rng = Prng::new(seed_from_env().wrapping_mul(9_000_011));
		cases = gen_fileops_cases(&mut rng, arg_u64("n", 20) as usize);
	}
	let mut rng = Prng::new(seed_from_env() ^ 0x5eed);
	for (i, c) in cases.iter().enumerate() {
		if c["kind"] != "fileops" {
			continue;
		}
		let top = format!("{}/f{}", base, i);
		let dir = seed_dir(&top);
		std::fs::create_dir_all(&dir).unwrap();
		let old = c["old"].as_str().unwrap();
		let new = c["new"].as_str().unwrap();
		let seed_len = c["seed_len"].as_u64().unwrap() as usize;
		let seeds: Vec<Vec<u8>> = (0..3).map(|_| rng.bytes(seed_len)).collect();
		let pws = [old, new, PW_OTHER];
		let scratch = format!("{}/scratch", base);
		if !c["no_seed_file"].as_bool().unwrap_or(false) {
			std::fs::write(
				format!("{}/wallet.seed", dir),
				make_seed_file(&node, &scratch, &seeds[0], old),
			)
			.unwrap();
		}
		let baks: Vec<u64> = c["baks"].as_array().unwrap().iter().map(|x| x.as_u64().unwrap()).collect();
		for (j, b) in baks.iter().enumerate() {
			let d = &c["bak_desc"][j];
			let content = make_seed_file(
				&node,
				&scratch,
				&seeds[d[1].as_u64().unwrap() as usize],
				pws[d[0].as_u64().unwrap() as usize],
			);
			std::fs::write(format!("{}/{}", dir, bak_name(*b)), content).unwrap();
		}
		let files0 = list_seed_files(&dir);
		let mut inst = new_lc(&node, &top);
		let op = c["op"].as_str().unwrap();
		let used_old = if c["wrong_old"].as_bool().unwrap_or(false) {
			format!("{}-wrong", old)
		} else {
			old.to_owned()
		};
		let rec_phrase = match c["phrase_kind"].as_u64().unwrap_or(0) {
			0 => phrase_of(&seeds[0]),
			1 => phrase_of(&seeds[2]),
			_ => "these are not twelve valid bip39 words at all sorry".to_owned(),
		};
		marker(&base, "BEGIN", i);
		let r = guarded(|| {
			let lc = inst.lc_provider().unwrap();
			if op == "change" {
				lc.change_password(None, ZeroingString::from(used_old.as_str()), ZeroingString::from(new))
			} else {
				lc.recover_from_mnemonic(ZeroingString::from(rec_phrase.as_str()), ZeroingString::from(new))
			}
		});
		marker(&base, "END", i);
		let files1 = list_seed_files(&dir);
		// the directory as the call left it, backups included, opened through the lifecycle API
		// (WalletSeed::from_file) with each password of the case: it opens exactly with the password
		// the file wallet.seed itself is sealed under (independent PBKDF2 + ChaCha20-Poly1305
		// decryption of that one file), and then as the seed sealed there — never as a backup's
		let cur = std::fs::read(format!("{}/wallet.seed", dir)).unwrap_or_default();
		let mut open_fails: Vec<String> = vec![];
		let wrong_old = format!("{}-wrong", old);
		for (pn, pw) in [("old", old), ("new", new), ("other", PW_OTHER), ("old-wrong", wrong_old.as_str())].iter() {
			let expect = indep_decrypt(&cur, pw);
			let got = guarded(|| {
				let lc = inst.lc_provider().unwrap();
				lc.get_mnemonic(None, ZeroingString::from(*pw))
			});
			match (expect, got) {
				(_, Err(_)) => open_fails.push(format!("opening the directory with the {} password panicked", pn)),
				(None, Ok(Ok(_))) => open_fails.push(format!(
					"after {}: the {} password does not open wallet.seed, yet the wallet opened with it (a seed from elsewhere in the directory)", op, pn)),
				(Some(sd), Ok(Ok(p))) => {
					if mnemonic::from_entropy(&sd).map(|m| m != *p).unwrap_or(true) {
						open_fails.push(format!("after {}: the {} password opened a seed other than the one in wallet.seed", op, pn));
					}
				}
				(Some(_), Ok(Err(e))) => open_fails.push(format!("after {}: the {} password opens wallet.seed but the wallet refused it: {}", op, pn, e)),
				(None, Ok(Err(_))) => {}
			}
		}
		out.line(&json!({"case": c, "id": i, "dir": dir, "res": res_code(&r), "res_text": res_text(&r),
			"files0": files0, "files1": files1, "open_fails": open_fails,
			"orig_phrase": phrase_of(&seeds[0]), "other_phrase": phrase_of(&seeds[1]),
			"recover_phrase": phrase_of(&seeds[2]), "pw_other": PW_OTHER}));
		let _ = std::fs::remove_dir_all(&top);
	}
	drop(node);
	let _ = std::fs::remove_dir_all(&base);
}

/// Input: one JSON object per line with files0 (name -> hex), new_content (hex of what the
/// operation wrote to wallet.seed, if anything), effects [[kind, name, name2?]...], passwords and
/// the original phrase. Every prefix of the effect list (and every torn write) is materialised
/// in a scratch directory with real file operations, and every wallet.seed* file found there is
/// opened through the real WalletSeed::from_file with the old, the new and wrong passwords.
fn mode_prefixes(out: &mut Out) {
	let base = format!("/tmp/vh_c12_{}", std::process::id());
	let _ = std::fs::remove_dir_all(&base);
	std::fs::create_dir_all(&base).unwrap();
	vharness::scen::init_thread();
	let node = NodeCtl::new(&base);
	let input = std::fs::read_to_string(arg("in").expect("--in")).unwrap();
	for line in input.lines() {
		let c: Value = match serde_json::from_str(line) {
			Ok(v) => v,
			Err(_) => continue,
		};
		let old = c["old"].as_str().unwrap().to_owned();
		let new = c["new"].as_str().unwrap().to_owned();
		let orig = c["orig_phrase"].as_str().unwrap().to_owned();
		let wrong: Vec<String> = vec![format!("{}?", old), format!("{}?", new), "wrong".to_owned()]
			.into_iter()
			.filter(|w| *w != old && *w != new)
			.collect();
		let files0: BTreeMap<String, Vec<u8>> = c["files0"]
			.as_object()
			.unwrap()
			.iter()
			.map(|(k, v)| (k.clone(), from_hex_strict(v.as_str().unwrap()).unwrap()))
			.collect();
		let new_content = c["new_content"].as_str().and_then(|s| from_hex_strict(s)).unwrap_or_default();
		let effects: Vec<Vec<String>> = c["effects"]
			.as_array()
			.unwrap()
			.iter()
			.map(|e| e.as_array().unwrap().iter().map(|x| x.as_str().unwrap().to_owned()).collect())
			.collect();
		// the states: (k, torn) with torn = Some(len) for a write cut after len bytes
		let mut plan: Vec<(usize, Option<usize>)> = vec![];
		for k in 0..=effects.len() {
			plan.push((k, None));
			if k < effects.len() && effects[k][0] == "write" {
				let n = new_content.len();
				for t in [0usize, 1, n / 2, n.saturating_sub(1)].iter() {
					if *t < n {
						plan.push((k, Some(*t)));
					}
				}
			}
		}
		let mut states = vec![];
		let mut oracle: Vec<Value> = vec![];
		for (k, torn) in plan {
			let top = format!("{}/state", base);
			let dir = seed_dir(&top);
			let _ = std::fs::remove_dir_all(&top);
			std::fs::create_dir_all(&dir).unwrap();
			for (n, b) in &files0 {
				std::fs::write(format!("{}/{}", dir, n), b).unwrap();
			}
			let mut applied = effects[..k].to_vec();
			if let Some(t) = torn {
				applied.push(vec!["torn".to_owned(), effects[k][1].clone(), t.to_string()]);
			}
			for e in &applied {
				let p = format!("{}/{}", dir, e[1]);
				match e[0].as_str() {
					"rename" => {
						let _ = std::fs::rename(&p, format!("{}/{}", dir, e[2]));
					}
					"create" => {
						let _ = std::fs::File::create(&p);
					}
					"write" => {
						let _ = std::fs::write(&p, &new_content);
					}
					"torn" => {
						let t: usize = e[2].parse().unwrap();
						let _ = std::fs::write(&p, &new_content[..t]);
					}
					"remove" => {
						let _ = std::fs::remove_file(&p);
					}
					_ => {}
				}
			}
			// open every file as if it were the seed file
			let names: Vec<String> = list_seed_files(&dir).keys().cloned().collect();
			let mut per_file = vec![];
			let mut recoverable = false;
			for n in &names {
				let probe = format!("{}/probe", base);
				let _ = std::fs::remove_dir_all(&probe);
				std::fs::create_dir_all(seed_dir(&probe)).unwrap();
				std::fs::copy(format!("{}/{}", dir, n), format!("{}/wallet.seed", seed_dir(&probe))).unwrap();
				let mut inst = new_lc(&node, &probe);
				let co = try_open(&mut inst, &old, &orig);
				let cn = try_open(&mut inst, &new, &orig);
				let mut cw = 1;
				for w in &wrong {
					let x = try_open(&mut inst, w, &orig);
					if x != 1 {
						cw = x;
					}
				}
				if co == 0 || cn == 0 {
					recoverable = true;
				}
				if co == 2 || cn == 2 || cw != 1 {
					oracle.push(json!({"k": k, "torn": torn, "file": n, "what": format!("old/new/wrong classes {} {} {}: panic, or a wrong password opens the file", co, cn, cw)}));
				}
				per_file.push(json!([n, co, cn, cw]));
			}
			if !recoverable && c["expect_recoverable"].as_bool().unwrap_or(true) {
				oracle.push(json!({"k": k, "torn": torn, "applied": applied,
					"what": "no file in the directory opens to the original seed with the old or the new password"}));
			}
			states.push(json!({"k": k, "torn": torn, "files": per_file, "recoverable": recoverable}));
			let _ = std::fs::remove_dir_all(&top);
		}
		out.line(&json!({"id": c["id"], "states": states, "oracle": oracle}));
	}
	drop(node);
	let _ = std::fs::remove_dir_all(&base);
}

/// The write of the new seed file FAILS (file-size limit: the kernel cuts the write after L bytes
/// and every further write returns EFBIG — what a full disk or a quota does): change_password /
/// recover_from_mnemonic run on the real code under RLIMIT_FSIZE = L for L around and inside the
/// file; afterwards some wallet.seed* file must still open to the original seed with the old or
/// the new password (an interrupted operation leaves the original seed recoverable).
fn mode_faults(out: &mut Out) {
	let base = format!("/tmp/vh_c12_{}_faults", std::process::id());
	let _ = std::fs::remove_dir_all(&base);
	std::fs::create_dir_all(&base).unwrap();
	vharness::scen::init_thread();
	let node = NodeCtl::new(&base);
	let mut rng = Prng::new(seed_from_env() ^ 0xfa17);
	unsafe {
		libc::signal(libc::SIGXFSZ, libc::SIG_IGN);
	}
	let mut id = 0;
	for op in &["change", "recover_same", "recover_other"] {
		for seed_len in &[16usize, 32] {
			for limit in &[0u64, 1, 17, 64, 150, 199, 100_000] {
				id += 1;
				let top = format!("{}/f{}", base, id);
				let dir = seed_dir(&top);
				std::fs::create_dir_all(&dir).unwrap();
				let seed0 = rng.bytes(*seed_len);
				let seed1 = rng.bytes(*seed_len);
				let (old, new) = ("old pw", "new pw");
				let scratch = format!("{}/scratch", base);
				std::fs::write(format!("{}/wallet.seed", dir), make_seed_file(&node, &scratch, &seed0, old)).unwrap();
				let orig = phrase_of(&seed0);
				let mut inst = new_lc(&node, &top);
				let mut lim = libc::rlimit { rlim_cur: 0, rlim_max: 0 };
				unsafe {
					libc::getrlimit(libc::RLIMIT_FSIZE, &mut lim);
					let l2 = libc::rlimit { rlim_cur: *limit as libc::rlim_t, rlim_max: lim.rlim_max };
					libc::setrlimit(libc::RLIMIT_FSIZE, &l2);
				}
				let r = guarded(|| {
					let lc = inst.lc_provider().unwrap();
					match *op {
						"change" => lc.change_password(None, ZeroingString::from(old), ZeroingString::from(new)),
						"recover_same" => lc.recover_from_mnemonic(ZeroingString::from(orig.as_str()), ZeroingString::from(new)),
						_ => lc.recover_from_mnemonic(ZeroingString::from(phrase_of(&seed1).as_str()), ZeroingString::from(new)),
					}
				});
				unsafe {
					libc::setrlimit(libc::RLIMIT_FSIZE, &lim);
				}
				let files = list_seed_files(&dir);
				let mut per_file = vec![];
				let mut recoverable = false;
				let mut bad = vec![];
				for (n, hexc) in &files {
					let probe = format!("{}/probe", base);
					let _ = std::fs::remove_dir_all(&probe);
					std::fs::create_dir_all(seed_dir(&probe)).unwrap();
					std::fs::copy(format!("{}/{}", dir, n), format!("{}/wallet.seed", seed_dir(&probe))).unwrap();
					let mut pi = new_lc(&node, &probe);
					let co = try_open(&mut pi, old, &orig);
					let cn = try_open(&mut pi, new, &orig);
					if co == 0 || cn == 0 {
						recoverable = true;
					}
					if co == 2 || cn == 2 {
						bad.push(format!("opening {} panics", n));
					}
					per_file.push(json!([n, hexc.len() / 2, co, cn]));
				}
				out.line(&json!({"kind": "fault", "id": id, "op": op, "seed_len": seed_len, "limit": limit,
					"res": res_code(&r), "res_text": res_text(&r), "files": per_file, "recoverable": recoverable, "bad": bad}));
				let _ = std::fs::remove_dir_all(&top);
			}
		}
	}
	drop(node);
	let _ = std::fs::remove_dir_all(&base);
}

/// A context record in the layout written before the initial_* fields were masked (no marker
/// byte, initial_sec_key / initial_sec_nonce as they are) must still be read back correctly
/// and the transaction must still finalize.
fn mode_compat(out: &mut Out) {
	let dir = format!("/tmp/vh_c12_{}_compat", std::process::id());
	let r = guarded(|| {
		let mut s = Scen::new(&dir);
		let a = s.add_wallet("w0", None, false);
		let b = s.add_wallet("w1", None, true);
		s.mine(a, 4);
		s.mine(a, 3);
		let slate = s
			.with(a, |w, m| {
				let sl = owner::init_send_tx(w, m, args_for(1_500_000_000, false), false)?;
				owner::tx_lock_outputs(w, m, &sl)?;
				Ok::<Slate, Error>(sl)
			})
			.unwrap();
		let id = slate.id;
		let ctx = s.with(a, |w, m| w.get_private_context(m, id.as_bytes())).unwrap();
		let rk = s
			.with(a, |w, m| {
				w.keychain(m).unwrap().derive_key(
					0,
					&ExtKeychain::root_key_id(),
					SwitchCommitmentType::Regular,
				)
			})
			.unwrap();
		{
			let mut l = s.wallets[a].inst.lock();
			let lc = l.lc_provider().unwrap();
			lc.close_wallet(None).unwrap();
		}
		{
			let store = grin_store::Store::new(
				&format!("{}/w0/wallet_data/db", dir),
				None,
				Some("db"),
				None,
			)
			.unwrap();
			let key = grin_store::to_key_u64(b'p', id.as_bytes().to_vec(), 0);
			let mb = ctx_mask(&rk, id.as_bytes(), b"blind");
			let mn = ctx_mask(&rk, id.as_bytes(), b"nonce");
			let mut c = ctx.clone();
			for i in 0..32 {
				c.sec_key.0[i] ^= mb[i];
				c.sec_nonce.0[i] ^= mn[i];
			}
			let j = serde_json::to_vec(&c).unwrap();
			let mut v = (j.len() as u64).to_be_bytes().to_vec();
			v.extend(j);
			let batch = store.batch().unwrap();
			batch.put(&key, &v).unwrap();
			batch.commit().unwrap();
		}
		s.reopen(a);
		let ctx2 = s.with(a, |w, m| w.get_private_context(m, id.as_bytes())).unwrap();
		let same = ctx2.sec_key == ctx.sec_key
			&& ctx2.sec_nonce == ctx.sec_nonce
			&& ctx2.initial_sec_key == ctx.initial_sec_key
			&& ctx2.initial_sec_nonce == ctx.initial_sec_nonce;
		let s2 = s.with(b, |w, m| foreign::receive_tx(w, m, &slate, None, false)).unwrap();
		let fin = s.with(a, |w, m| owner::finalize_tx(w, m, &s2));
		json!({"kind": "compat", "legacy_record_read_back": same, "finalize_ok": fin.is_ok(),
			"finalize": fin.err().map(|e| format!("{:?}", e))})
	});
	let _ = std::fs::remove_dir_all(&dir);
	out.line(&match r {
		Ok(v) => v,
		Err(p) => json!({"kind": "compat", "harness_panic": p}),
	});
}

fn main() {
	quiet_panics();
	let mode = arg("mode").unwrap_or("hist".to_owned());
	let mut out = Out::create(&arg("out").unwrap_or("/dev/stdout".to_owned()));
	match mode.as_str() {
		"hist" => mode_hist(&mut out),
		"seed" => mode_seed(&mut out),
		"fileops" => mode_fileops(&mut out),
		"prefixes" => mode_prefixes(&mut out),
		"faults" => mode_faults(&mut out),
		"compat" => mode_compat(&mut out),
		_ => panic!("unknown mode"),
	}
	out.finish();
}
