//! C13 correspondence + oracle runner: drives the real `OwnerAPIHandlerV3` through
//! `grin_api::Handler::post` with crafted hyper requests (sessions of POSTs on a real
//! LMDB wallet) and prints, per session, what the handler answered and the state it was in
//! after every POST, plus the verdict of the property oracle evaluated on those
//! observations alone.
//!
//! A case (input):  {"rf": bool, "open": bool, "steps": [body..]}
//!   body  := {"c":"raw","v":n}                       bytes that are not JSON
//!          | inner
//!   inner := {"c":"call","m":"init|open|close|create|accounts|txs|unknown","good":b,"notif":b}
//!          | {"c":"env","key":"cur|old|rand","tamper":"none|nonce_tail|body_bit|tag_bit|
//!                nonce_bit|trunc|b64|nonce_short|nonce_hex|empty","form":"obj|seq|foo|init","j":inner}
//!          | {"c":"batch","items":[inner..]}
//!          | {"c":"junk","v":n}
//! Per POST the row carries the *resolved* description handed to the Coq model (which key
//! label the client really sealed with, whether the ciphertext is an untampered sealing) and
//! the observation  reply ++ [key label, open, accounts (if open), mask stored]:
//!   reply: [0] HTTP 500 | [1, 32001|32002|32003] gate error | 2::shape clear JSON-RPC reply
//!        | 3::label::shape sealed reply (label of the key that opens it) | [4] "[]" | [5] panic
//!   shape: [1] ok | [2] error | 3::n::(1|2)* batch
use grin_api::Handler;
use grin_keychain::ExtKeychain;
use grin_util::secp::key::{PublicKey, SecretKey};
use grin_util::{from_hex, static_secp_instance, Mutex, ToHex};
use hyper::{Body, Request};
use serde_json::{json, Value};
use sha2::{Digest, Sha256};
use std::sync::Arc;
use vharness::api::{EncryptedRequest, EncryptedResponse, JsonId};
use vharness::controller::controller::OwnerAPIHandlerV3;
use vharness::libwallet::{WalletInst, WalletLCProvider};
use vharness::node::ChainNode;
use vharness::prng::{seed_from_env, Prng};
use vharness::scen::*;
use vharness::util::ZeroingString;
use vharness::*;

type H = OwnerAPIHandlerV3<LC, ChainNode, ExtKeychain>;

/// Watchdog: a POST that is never answered (e.g. a lock taken twice) must not hang the
/// check. While a POST is in flight IN_POST holds its start time (ms since start, +1).
static IN_POST: std::sync::atomic::AtomicU64 = std::sync::atomic::AtomicU64::new(0);
static CUR_CASE: std::sync::Mutex<String> = std::sync::Mutex::new(String::new());
fn now_ms(t0: &std::time::Instant) -> u64 {
	t0.elapsed().as_millis() as u64 + 1
}
fn start_watchdog(out_path: String) -> std::time::Instant {
	let t0 = std::time::Instant::now();
	let t = t0.clone();
	std::thread::spawn(move || loop {
		std::thread::sleep(std::time::Duration::from_millis(500));
		let st = IN_POST.load(std::sync::atomic::Ordering::SeqCst);
		if st != 0 && now_ms(&t) > st + 20_000 {
			let case = CUR_CASE.lock().map(|c| c.clone()).unwrap_or_default();
			let _ = std::fs::write(format!("{}.hang", out_path), case);
			let _ = std::fs::remove_dir_all(format!("/tmp/vh_c13_{}", std::process::id()));
			std::process::exit(3);
		}
	});
	t0
}

const CLIENT_SEC: &str = "e00dcc4a009e3427c6b1e1a550c538179d46f3827a13ed74c759c860761caf1e";
const CLIENT_PUB: &str = "03b3c18c9a38783d105e238953b1638b021ba7456d87a5c085b3bdb75777b4c490";

fn derive(server_pub_hex: &str) -> Option<SecretKey> {
	let secp_inst = static_secp_instance();
	let secp = secp_inst.lock();
	let sk = SecretKey::from_slice(&secp, &from_hex(CLIENT_SEC).ok()?).ok()?;
	let mut pk = PublicKey::from_slice(&secp, &from_hex(server_pub_hex).ok()?).ok()?;
	pk.mul_assign(&secp, &sk).ok()?;
	let x = pk.serialize_vec(&secp, true);
	SecretKey::from_slice(&secp, &x[1..]).ok()
}

fn key_from_bytes(b: &[u8]) -> SecretKey {
	let secp_inst = static_secp_instance();
	let secp = secp_inst.lock();
	SecretKey::from_slice(&secp, b).unwrap()
}

struct Sess<'a> {
	h: H,
	mask: Arc<Mutex<Option<SecretKey>>>,
	inst: WInst,
	wdir: String,
	rt: &'a mut tokio::runtime::Runtime,
	/// keys the client derived from init replies, oldest first: (label, key)
	keys: Vec<(i64, SecretKey)>,
	token: Option<String>,
	prng: Prng,
	case_tag: String,
	t0: std::time::Instant,
}

/// What the harness knows about the body it built (ground truth for the oracle).
#[derive(Default, Clone)]
struct Sent {
	/// top level is an envelope sealed by us under this key with no significant tampering
	sealed_under: Option<SecretKey>,
	/// key used for the top-level envelope (even if tampered), to open the reply
	used_key: Option<SecretKey>,
	/// ids of good open_wallet calls inside (to learn the token from the reply)
	open_ids: Vec<u64>,
	/// (id, label) of good init calls with an id
	init_ids: Vec<(u64, i64)>,
}

fn flip(b: &mut Vec<u8>, idx: usize) {
	if !b.is_empty() {
		let i = idx % b.len();
		b[i] ^= 0x10;
	}
}

impl<'a> Sess<'a> {
	fn tok(&self) -> Value {
		match &self.token {
			Some(t) => json!(t),
			None => Value::Null,
		}
	}

	/// Build the JSON value of an inner description; returns (value, resolved description).
	fn build(&mut self, d: &Value, step: u64, pos: u64, top: bool, sent: &mut Sent) -> (Value, Value) {
		let id = pos + 1;
		match d["c"].as_str().unwrap_or("junk") {
			"call" => {
				let m = d["m"].as_str().unwrap_or("unknown");
				let good = d["good"].as_bool().unwrap_or(true);
				let notif = d["notif"].as_bool().unwrap_or(false);
				let (method, params) = match m {
					"init" => (
						"init_secure_api",
						if good { json!({ "ecdh_pubkey": CLIENT_PUB }) } else { json!({"ecdh_pubkey": "00"}) },
					),
					"open" => (
						"open_wallet",
						json!({"name": null, "password": if good { "" } else { "wrong" }}),
					),
					"close" => ("close_wallet", if good { json!({ "name": null }) } else { json!({"name": 5}) }),
					"create" => (
						"create_account_path",
						if good {
							json!({"token": self.tok(), "label": format!("a{}_{}_{}", self.case_tag, step, pos)})
						} else {
							json!({"token": self.tok()})
						},
					),
					"accounts" => ("accounts", if good { json!({"token": self.tok()}) } else { json!({}) }),
					"txs" => (
						"retrieve_txs",
						if good {
							json!({"token": self.tok(), "refresh_from_node": false, "tx_id": null, "tx_slate_id": null})
						} else {
							json!({"token": self.tok()})
						},
					),
					_ => ("no_such_method", json!({})),
				};
				let mut v = json!({"jsonrpc": "2.0", "method": method, "params": params});
				if !notif {
					v["id"] = json!(id);
					if m == "open" && good {
						sent.open_ids.push(id);
					}
					if m == "init" && good {
						sent.init_ids.push((id, (step * 1000 + pos + 1) as i64));
					}
				}
				(v, json!({"c": "call", "m": m, "good": good, "notif": notif}))
			}
			"batch" => {
				let mut vs = vec![];
				let mut rs = vec![];
				let items = d["items"].as_array().cloned().unwrap_or_default();
				for (i, it) in items.iter().enumerate() {
					// nested descriptions are positioned by their index in the array
					let mut s2 = Sent::default();
					let (v, r) = self.build(it, step, i as u64, false, &mut s2);
					sent.open_ids.extend(s2.open_ids);
					sent.init_ids.extend(s2.init_ids);
					vs.push(v);
					rs.push(r);
				}
				(Value::Array(vs), json!({"c": "batch", "items": rs}))
			}
			"env" => {
				let form = d["form"].as_str().unwrap_or("obj").to_owned();
				let tamper = d["tamper"].as_str().unwrap_or("none").to_owned();
				let (label, key) = match d["key"].as_str().unwrap_or("cur") {
					"cur" if !self.keys.is_empty() => self.keys[self.keys.len() - 1].clone(),
					"old" if self.keys.len() >= 2 => {
						let i = self.prng.below(self.keys.len() as u64 - 1) as usize;
						self.keys[i].clone()
					}
					_ => {
						let mut b = self.prng.bytes(32);
						b[0] &= 0x7f;
						b[31] |= 1;
						(8, key_from_bytes(&b))
					}
				};
				// the plaintext is built with positions of its own (it is a POST body of its own)
				let mut inner_sent = Sent::default();
				let (pv, pr) = self.build(&d["j"], step, 0, false, &mut inner_sent);
				let enc = EncryptedRequest::from_json(&JsonId::IntId(id as u32), &pv, &key).unwrap();
				let mut ev = enc.as_json_value().unwrap();
				let mut nonce = from_hex(ev["params"]["nonce"].as_str().unwrap()).unwrap();
				let mut body = base64::decode(ev["params"]["body_enc"].as_str().unwrap()).unwrap();
				let r = self.prng.next() as usize;
				let mut sealed = true;
				let mut nonce_s = None;
				let mut body_s = None;
				match tamper.as_str() {
					"none" => {}
					"nonce_tail" => nonce.extend_from_slice(&[0xab, 0xcd]),
					"body_bit" => {
						let n = body.len() - 16;
						let i = r % n.max(1);
						body[i] ^= 1 << (r % 8);
						sealed = false;
					}
					"tag_bit" => {
						let n = body.len();
						body[n - 1 - (r % 16)] ^= 1 << (r % 8);
						sealed = false;
					}
					"nonce_bit" => {
						flip(&mut nonce, r % 12);
						sealed = false;
					}
					"trunc" => {
						body.truncate(body.len() - 1 - (r % 3));
						sealed = false;
					}
					"empty" => {
						body.clear();
						sealed = false;
					}
					"b64" => {
						body_s = Some("!!!not base64!!!".to_owned());
						sealed = false;
					}
					"nonce_short" => {
						nonce.truncate(11);
						sealed = false;
					}
					"nonce_hex" => {
						nonce_s = Some("zz".repeat(12));
						sealed = false;
					}
					_ => {}
				}
				ev["params"]["nonce"] = json!(nonce_s.unwrap_or(nonce.to_hex()));
				ev["params"]["body_enc"] = json!(body_s.unwrap_or(base64::encode(&body)));
				let mut as_init = false;
				let out = match form.as_str() {
					"seq" if top => json!(["2.0", "encrypted_request_v3", id, [ev["params"]["nonce"], ev["params"]["body_enc"]]]),
					"foo" => {
						ev["method"] = json!("foo");
						ev
					}
					"init" => {
						ev["method"] = json!("init_secure_api");
						as_init = true;
						ev
					}
					_ => ev,
				};
				if as_init {
					// {"method":"init_secure_api","params":{nonce, body_enc}}: a clear-text
					// key exchange with unusable parameters
					return (out, json!({"c": "call", "m": "init", "good": false, "notif": false}));
				}
				// an envelope under another method name, or as a bare array, is malformed: the gate
				// answers -32002 without opening it (the [fix:] for C13-envelope-method-not-checked)
				if form == "foo" || (form == "seq" && top) {
					return (out, json!({"c": "junk", "obj": form == "foo"}));
				}
				if top {
					sent.used_key = Some(key.clone());
					if sealed {
						sent.sealed_under = Some(key.clone());
						sent.open_ids = inner_sent.open_ids;
						sent.init_ids = inner_sent.init_ids;
					}
				}
				(out, json!({"c": "env", "sealed": sealed, "klabel": label, "j": pr}))
			}
			_ => {
				let v = d["v"].as_u64().unwrap_or(0);
				let objs = vec![
					json!({}),
					json!({"method": 5}),
					json!({"jsonrpc": "2.0", "id": 1}),
					json!({"jsonrpc": "2.0", "method": "encrypted_request_v3", "params": {"body_enc:": "thisiswrong"}, "id": 1}),
					json!({"method": ["init_secure_api"], "id": 1}),
					json!({"Method": "init_secure_api", "params": {"ecdh_pubkey": CLIENT_PUB}, "id": 1, "jsonrpc": "2.0"}),
					json!({"params": {"method": "init_secure_api"}, "id": 1, "jsonrpc": "2.0"}),
				];
				// values that are not even an (invalid) jsonrpc_core::Call; the last one is an
				// object whose id has a type no Call variant accepts
				let nons = vec![
					json!(null),
					json!(5),
					json!("init_secure_api"),
					json!(true),
					json!(1.5),
					json!({"jsonrpc": "2.0", "method": "encrypted_request_v3", "params": {"nonce": "00", "body_enc": ""}, "id": {}}),
				];
				let n = (objs.len() + nons.len()) as u64;
				let i = (v % n) as usize;
				if i < objs.len() {
					(objs[i].clone(), json!({"c": "junk", "obj": true}))
				} else {
					(nons[i - objs.len()].clone(), json!({"c": "junk", "obj": false}))
				}
			}
		}
	}

	fn post(&mut self, body: Vec<u8>) -> Result<(u16, Vec<u8>), String> {
		let h = &self.h;
		let rt = &mut *self.rt;
		IN_POST.store(now_ms(&self.t0), std::sync::atomic::Ordering::SeqCst);
		let r = guarded(move || {
			let req = Request::post("http://127.0.0.1:3420/v3/owner").body(Body::from(body)).unwrap();
			let resp = rt.block_on(h.post(req)).unwrap();
			let st = resp.status().as_u16();
			let b = rt.block_on(hyper::body::to_bytes(resp.into_body())).unwrap();
			(st, b.to_vec())
		});
		IN_POST.store(0, std::sync::atomic::Ordering::SeqCst);
		r
	}

	fn label_of(&self, k: &SecretKey) -> i64 {
		self.keys.iter().find(|(_, x)| x.0 == k.0).map(|(l, _)| *l).unwrap_or(-1)
	}

	fn is_open(&self) -> bool {
		let mut l = self.inst.lock();
		let lc = l.lc_provider().unwrap();
		lc.wallet_inst().is_ok()
	}

	/// [key label, open, accounts, mask]
	fn state(&self) -> Vec<i64> {
		let key = self.h.shared_key.lock().clone();
		let kl = match &key {
			None => 0,
			Some(k) => self.label_of(k),
		};
		let open = self.is_open();
		let accts = if open {
			let mut l = self.inst.lock();
			let lc = l.lc_provider().unwrap();
			let b = lc.wallet_inst().unwrap();
			b.acct_path_iter().count() as i64 - 1
		} else {
			0
		};
		vec![kl, open as i64, accts, self.mask.lock().is_some() as i64]
	}

	/// Everything persistent or secret-bearing the gate must protect, as one string.
	fn fingerprint(&self) -> String {
		let mut hs = Sha256::new();
		for f in &["wallet_data/db/lmdb/data.mdb", "wallet_data/wallet.seed"] {
			if let Ok(b) = std::fs::read(format!("{}/{}", self.wdir, f)) {
				hs.update(&b);
			}
			hs.update(b"|");
		}
		let mut names: Vec<String> = std::fs::read_dir(format!("{}/wallet_data/saved_txs", self.wdir))
			.map(|d| d.filter_map(|e| e.ok()).map(|e| e.file_name().to_string_lossy().to_string()).collect())
			.unwrap_or_default();
		names.sort();
		let open = self.is_open();
		let snap = if open {
			let mut l = self.inst.lock();
			let lc = l.lc_provider().unwrap();
			let b = lc.wallet_inst().unwrap();
			snapshot(&mut **b).to_string()
		} else {
			String::new()
		};
		format!(
			"{}|{:?}|{}|{}|{:?}",
			hs.finalize().to_vec().to_hex(),
			names,
			open,
			snap,
			self.mask.lock().as_ref().map(|m| m.0.to_vec().to_hex())
		)
	}
}

fn shape1(v: &Value) -> i64 {
	if v["result"]["Ok"] != Value::Null || (v["result"].is_object() && v["result"].as_object().unwrap().contains_key("Ok")) {
		1
	} else if v.get("error").is_some() || v["result"].get("Err").is_some() {
		2
	} else {
		9
	}
}
fn shape(v: &Value) -> Vec<i64> {
	match v.as_array() {
		Some(a) => {
			let mut r = vec![3, a.len() as i64];
			r.extend(a.iter().map(shape1));
			r
		}
		None => vec![shape1(v)],
	}
}

fn gate_code(v: &Value) -> Option<i64> {
	let c = v["error"]["code"].as_i64()?;
	if v.get("result").is_none() && (-32003..=-32001).contains(&c) {
		Some(-c)
	} else {
		None
	}
}

fn run_case(rt: &mut tokio::runtime::Runtime, scen: &mut Scen, widx: usize, case: &Value, tag: &str, seed: u64, t0: std::time::Instant) -> Value {
	*CUR_CASE.lock().unwrap() = case.to_string();
	let rf = case["rf"].as_bool().unwrap_or(false);
	let want_open = case["open"].as_bool().unwrap_or(false);
	let inst = scen.wallets[widx].inst.clone();
	let wdir = format!("{}/{}", scen.dir, scen.wallets[widx].name);
	// bring the wallet into the initial state of the case, outside the API under test
	let (token, accts0) = {
		let mut l = inst.lock();
		let lc = l.lc_provider().unwrap();
		let _ = lc.close_wallet(None);
		let m = lc.open_wallet(None, ZeroingString::from(""), true, false).unwrap();
		let n = lc.wallet_inst().unwrap().acct_path_iter().count() as i64 - 1;
		if want_open {
			(m.map(|m| m.0.to_vec().to_hex()), n)
		} else {
			let _ = lc.close_wallet(None);
			(None, n)
		}
	};
	let mask = Arc::new(Mutex::new(None));
	let h = OwnerAPIHandlerV3::new(inst.clone(), mask.clone(), None, rf);
	let mut s = Sess {
		h,
		mask,
		inst,
		wdir,
		rt,
		keys: vec![],
		token,
		prng: Prng::new(seed),
		case_tag: tag.to_owned(),
		t0,
	};
	let mut resolved = vec![];
	let mut obs: Vec<Vec<i64>> = vec![];
	let mut fails: Vec<String> = vec![];
	let mut invoked = 0u64;
	let steps = case["steps"].as_array().cloned().unwrap_or_default();
	for (i, d) in steps.iter().enumerate() {
		let step = i as u64 + 1;
		let mut sent = Sent::default();
		let (bytes, res): (Vec<u8>, Value) = if d["c"] == "raw" {
			let raws: Vec<Vec<u8>> = vec![
				b"".to_vec(),
				b"{".to_vec(),
				b"{\"jsonrpc\":\"2.0\",\"method\":\"init_secure_api\"".to_vec(),
				vec![0xff, 0xfe, 0x00],
				b"init_secure_api".to_vec(),
				b"{\"method\":\"init_secure_api\",}".to_vec(),
			];
			let v = d["v"].as_u64().unwrap_or(0) as usize % raws.len();
			(raws[v].clone(), json!({"c": "raw"}))
		} else {
			let (v, r) = s.build(d, step, 0, true, &mut sent);
			(serde_json::to_vec(&v).unwrap(), r)
		};
		// ground truth about the request, from the bytes actually sent
		let parsed: Option<Value> = serde_json::from_slice(&bytes).ok();
		let plain_init = parsed
			.as_ref()
			.map(|v| v.is_object() && v["method"].as_str() == Some("init_secure_api"))
			.unwrap_or(false);
		let key_pre = s.h.shared_key.lock().clone();
		let authentic = !plain_init
			&& match (&sent.sealed_under, &key_pre) {
				(Some(a), Some(b)) => a.0 == b.0,
				_ => false,
			};
		let fp_pre = s.fingerprint();
		let st_pre = s.state();
		let reply = s.post(bytes);
		// classify the reply
		let mut o: Vec<i64>;
		let mut reply_json: Option<Value> = None;
		let mut opened_reply: Option<Value> = None;
		match &reply {
			Err(_) => o = vec![5],
			Ok((st, b)) if *st != 200 => {
				o = vec![0];
				let _ = b;
			}
			Ok((_, b)) => {
				let v: Value = serde_json::from_slice(b).unwrap_or(Value::Null);
				reply_json = Some(v.clone());
				if v == json!([]) {
					o = vec![4];
				} else if let Some(c) = gate_code(&v) {
					o = vec![1, c];
				} else if let Ok(er) = serde_json::from_value::<EncryptedResponse>(v.clone()) {
					let mut cands: Vec<(i64, SecretKey)> = vec![];
					if let Some(k) = &sent.used_key {
						cands.push((if s.label_of(k) < 0 { 8 } else { s.label_of(k) }, k.clone()));
					}
					cands.extend(s.keys.iter().cloned());
					o = vec![3, -1];
					if er.result.get("Ok").is_some() {
						for (l, k) in cands {
							if let Ok(p) = guarded(|| er.decrypt(&k)).unwrap_or(Err(vharness::libwallet::Error::GenericError("p".into()))) {
								o = vec![3, l];
								o.extend(shape(&p));
								opened_reply = Some(p);
								break;
							}
						}
					}
				} else {
					o = vec![2];
					o.extend(shape(&v));
					opened_reply = Some(v.clone());
				}
			}
		}
		// the client learns keys and tokens from replies it can read
		if let Some(p) = &opened_reply {
			let items: Vec<Value> = match p.as_array() {
				Some(a) => a.clone(),
				None => vec![p.clone()],
			};
			for it in &items {
				let id = it["id"].as_u64().unwrap_or(0);
				if let Some(okv) = it["result"]["Ok"].as_str() {
					if sent.open_ids.contains(&id) {
						s.token = Some(okv.to_owned());
					}
					if let Some((_, label)) = sent.init_ids.iter().find(|(i, _)| *i == id) {
						if let Some(k) = derive(okv) {
							s.keys.push((*label, k));
						}
					}
				}
			}
		}
		let st_post = s.state();
		let fp_post = s.fingerprint();
		let key_post = s.h.shared_key.lock().clone();
		// ---- property oracle (implementation's own behaviour only)
		let same_key = match (&key_pre, &key_post) {
			(None, None) => true,
			(Some(a), Some(b)) => a.0 == b.0,
			_ => false,
		};
		let is_err_reply = o == vec![0] || o[0] == 1;
		if o[0] == 5 {
			fails.push(format!("step {}: the handler panicked: {:?}", step, reply.as_ref().err()));
		}
		if !plain_init && !authentic {
			if !is_err_reply {
				fails.push(format!("step {}: request not authenticated under the current key was not answered with an error: reply class {:?}", step, o));
			}
			if fp_pre != fp_post {
				fails.push(format!("step {}: request not authenticated under the current key changed wallet state", step));
			}
			if !same_key {
				fails.push(format!("step {}: request not authenticated under the current key changed the session key", step));
			}
		} else if authentic {
			invoked += 1;
			let k = sent.sealed_under.as_ref().unwrap();
			let sealed_ok = match &reply_json {
				Some(v) if *v == json!([]) => true,
				Some(v) => serde_json::from_value::<EncryptedResponse>(v.clone())
					.ok()
					.map(|er| er.result.get("Ok").is_some() && guarded(|| er.decrypt(k)).map(|r| r.is_ok()).unwrap_or(false))
					.unwrap_or(false),
				None => false,
			};
			if !sealed_ok {
				fails.push(format!("step {}: reply to an authenticated request is not sealed under the key that authenticated it: class {:?}", step, o));
			}
		} else {
			// clear-text key exchange
			invoked += 1;
			if fp_pre != fp_post {
				fails.push(format!("step {}: clear-text init_secure_api changed wallet state", step));
			}
			if let Some(v) = &reply_json {
				let okv = &v["result"]["Ok"];
				let fine = *v == json!([])
					|| (v.is_object()
						&& (v.get("result").is_none()
							|| (v["result"].as_object().map(|m| m.len() == 1).unwrap_or(false)
								&& (v["result"].get("Err").is_some()
									|| okv.as_str().map(|s| s.len() == 66).unwrap_or(false)))));
				if !fine {
					fails.push(format!("step {}: clear-text init_secure_api reply carries more than a public key", step));
				}
				if let Some(pk) = okv.as_str() {
					// rotation: the handler now holds exactly the key the client derives
					let dk = derive(pk);
					let holds = match (&dk, &key_post) {
						(Some(a), Some(b)) => a.0 == b.0,
						_ => false,
					};
					if !holds {
						fails.push(format!("step {}: after a successful key exchange the handler does not hold the agreed key", step));
					}
					if let (Some(a), Some(b)) = (&key_pre, &key_post) {
						if a.0 == b.0 {
							fails.push(format!("step {}: key exchange did not rotate the session key", step));
						}
					}
				}
			}
		}
		let _ = st_pre;
		o.extend(st_post);
		obs.push(o);
		resolved.push(res);
	}
	json!({
		"case": case,
		"resolved": {"rf": rf, "open": want_open, "tok": want_open, "accts": accts0, "steps": resolved},
		"obs": obs,
		"oracle": fails,
		"invoked": invoked,
	})
}

// ------------------------------------------------------------------ generators

fn call(m: &str, good: bool, notif: bool) -> Value {
	json!({"c": "call", "m": m, "good": good, "notif": notif})
}
fn env(key: &str, tamper: &str, form: &str, j: Value) -> Value {
	json!({"c": "env", "key": key, "tamper": tamper, "form": form, "j": j})
}
fn cur(j: Value) -> Value {
	env("cur", "none", "obj", j)
}
const TAMPERS: [&str; 9] = ["body_bit", "tag_bit", "nonce_bit", "trunc", "b64", "nonce_short", "nonce_hex", "empty", "nonce_tail"];
const METHS: [&str; 7] = ["init", "open", "close", "create", "accounts", "txs", "unknown"];

fn histories() -> Vec<(bool, Vec<Value>)> {
	let init = call("init", true, false);
	vec![
		(false, vec![]),
		(true, vec![]),
		(false, vec![init.clone()]),
		(true, vec![init.clone()]),
		(false, vec![init.clone(), cur(call("open", true, false))]),
		(false, vec![init.clone(), cur(call("open", true, false)), cur(call("create", true, false))]),
		(true, vec![init.clone(), init.clone()]),
		(true, vec![init.clone(), cur(init.clone())]),
		(false, vec![init.clone(), cur(call("open", true, false)), cur(call("close", true, false))]),
		(true, vec![init.clone(), cur(json!({"c": "batch", "items": [init.clone(), call("unknown", true, false)]}))]),
		(true, vec![init.clone(), call("init", true, true)]),
		(false, vec![init.clone(), cur(call("open", true, false)), init.clone(), cur(init.clone())]),
	]
}

fn probes() -> Vec<Value> {
	let mut p = vec![];
	for v in 0..6 {
		p.push(json!({"c": "raw", "v": v}));
	}
	for v in 0..13 {
		p.push(json!({"c": "junk", "v": v}));
	}
	for m in METHS.iter() {
		p.push(call(m, true, false));
	}
	p.push(call("init", false, false));
	p.push(call("init", true, true));
	p.push(call("create", true, true));
	p.push(json!({"c": "batch", "items": [call("init", true, false)]}));
	p.push(json!({"c": "batch", "items": [call("accounts", true, false), call("create", true, false)]}));
	p.push(json!({"c": "batch", "items": []}));
	let inners = vec![
		call("accounts", true, false),
		call("create", true, false),
		call("open", true, false),
		call("close", true, false),
		call("init", true, false),
		call("txs", true, false),
		call("create", true, true),
		json!({"c": "batch", "items": [call("create", true, false), call("accounts", true, false), call("unknown", true, true)]}),
		cur(call("create", true, false)),
		json!({"c": "junk", "v": 9}),
	];
	for k in ["cur", "old", "rand"].iter() {
		for j in &inners {
			p.push(env(k, "none", "obj", j.clone()));
		}
	}
	for t in TAMPERS.iter() {
		p.push(env("cur", t, "obj", call("create", true, false)));
		p.push(env("cur", t, "obj", call("init", true, false)));
	}
	for v in 0..13 {
		p.push(cur(json!({"c": "batch", "items": [call("create", true, false), {"c": "junk", "v": v}, call("accounts", true, false)]})));
	}
	p.push(cur(json!({"c": "batch", "items": [call("close", true, false), call("open", true, false), call("create", true, false), call("txs", true, false)]})));
	p.push(cur(json!({"c": "batch", "items": [call("open", true, true), call("accounts", true, false)]})));
	for f in ["seq", "foo", "init"].iter() {
		p.push(env("cur", "none", f, call("create", true, false)));
		p.push(env("old", "none", f, call("create", true, false)));
	}
	p.push(env("cur", "body_bit", "seq", call("create", true, false)));
	p
}

fn systematic() -> Vec<Value> {
	let mut cases = vec![];
	for (open, h) in histories() {
		for pr in probes() {
			let mut steps = h.clone();
			steps.push(pr);
			steps.push(cur(call("create", true, false)));
			steps.push(cur(call("accounts", true, false)));
			cases.push(json!({"rf": cases.len() % 2 == 0, "open": open, "steps": steps}));
		}
	}
	cases
}

fn gen_inner(p: &mut Prng, depth: u32) -> Value {
	match p.below(20) {
		0..=13 => {
			let m = *p.pick(&["init", "open", "close", "create", "create", "accounts", "accounts", "txs", "unknown"]);
			call(m, !p.chance(1, 8), p.chance(1, 10))
		}
		14..=16 if depth < 2 => {
			let n = p.below(4);
			let items: Vec<Value> = (0..n).map(|_| gen_inner(p, depth + 1)).collect();
			json!({"c": "batch", "items": items})
		}
		17 if depth < 2 => gen_env(p, depth + 1),
		_ => json!({"c": "junk", "v": p.below(13)}),
	}
}
fn gen_env(p: &mut Prng, depth: u32) -> Value {
	let key = *p.pick(&["cur", "cur", "cur", "cur", "cur", "cur", "old", "rand"]);
	let tamper = if p.chance(1, 7) { *p.pick(&TAMPERS) } else { "none" };
	let form = *p.pick(&["obj", "obj", "obj", "obj", "seq", "foo", "init"]);
	env(key, tamper, form, gen_inner(p, depth))
}
fn gen_case(p: &mut Prng) -> Value {
	let n = p.range(4, 14);
	let mut steps = vec![];
	if p.chance(4, 5) {
		steps.push(call("init", true, false));
	}
	if p.chance(1, 2) {
		steps.push(cur(call("open", true, false)));
	}
	for _ in 0..n {
		let s = match p.below(20) {
			0 => json!({"c": "raw", "v": p.below(6)}),
			1..=3 => gen_inner(p, 0),
			4 => call("init", true, false),
			_ => gen_env(p, 0),
		};
		steps.push(s);
	}
	json!({"rf": p.coin(), "open": p.coin(), "steps": steps})
}

fn main() {
	quiet_panics();
	let out_path = arg("out").expect("--out");
	let mut out = Out::create(&out_path);
	let _ = std::fs::remove_file(format!("{}.hang", out_path));
	let t0 = start_watchdog(out_path.clone());
	let dir = format!("/tmp/vh_c13_{}", std::process::id());
	let mut scen = Scen::new(&dir);
	let mut rt = tokio::runtime::Builder::new().basic_scheduler().enable_all().build().unwrap();
	let mut cases: Vec<Value> = vec![];
	if let Some(replay) = arg("replay") {
		let v: Value = serde_json::from_str(&std::fs::read_to_string(&replay).unwrap()).unwrap();
		if v.get("cases").is_some() {
			cases = v["cases"].as_array().unwrap().clone();
		} else {
			cases.push(v["case"].clone());
		}
	} else {
		if arg_u64("sys", 1) == 1 {
			cases.extend(systematic());
		}
		let mut p = Prng::new(seed_from_env());
		for _ in 0..arg_u64("n", 150) {
			cases.push(gen_case(&mut p));
		}
	}
	let mut widx = 0;
	for (id, c) in cases.iter().enumerate() {
		if id % 25 == 0 {
			// a fresh wallet directory every 25 sessions keeps account lists short
			if id > 0 {
				let mut l = scen.wallets[widx].inst.lock();
				let _ = l.lc_provider().unwrap().close_wallet(None);
			}
			widx = scen.add_wallet(&format!("w{}", id), None, true);
			if id > 0 {
				let _ = std::fs::remove_dir_all(format!("{}/{}", dir, scen.wallets[widx - 1].name));
			}
		}
		let mut row = run_case(&mut rt, &mut scen, widx, c, &format!("{}", id), seed_from_env() ^ (id as u64 * 7919), t0);
		row["id"] = json!(id);
		out.line(&row);
	}
	out.finish();
	drop(scen);
	let _ = std::fs::remove_dir_all(&dir);
}
