//! C14 correspondence + oracle runner: every `pub fn` of `api::Owner` on real LMDB wallets.
//!
//! Wallets of one scenario: M (opened WITH a keychain mask), U (same seed, opened without),
//! O (another masked wallet, source of "another wallet's token"), D (scratch, for
//! delete_wallet). M and U receive identical histories (every coinbase is built by both).
//! For every token-taking method variant: wrong tokens (absent, random, one bit off, O's)
//! on M, tokens on U, the right token on M and on U (twin run), at three wallet states
//! (fresh, funded, with a pending send) with the node reachable and unreachable; then the
//! whole table on the closed wallet, and the refresh variants while the updater flag is
//! stuck. One JSON row per call:
//!   case : what is handed to the Coq model (method, variant, masked, token kind, open, node
//!          down, updater flag, password right, failing validations)
//!   impl : result class ++ [stored state changed, anything changed]
//!          class: [0] Ok | [1, err_class] | [2] panic
//!   oracle: failures of the property evaluated on the implementation alone.
use grin_core::core::OutputFeatures;
use grin_core::global::ChainTypes;
use grin_keychain::ExtKeychain;
use grin_util::secp::key::SecretKey;
use grin_util::secp::pedersen::Commitment;
use grin_util::{static_secp_instance, ToHex, ZeroingString};
use serde_json::{json, Value};
use sha2::{Digest, Sha256};
use std::time::Duration;
use vharness::api::Owner;
use vharness::libwallet::api_impl::foreign;
use vharness::libwallet::mwixnet::MixnetReqCreationParams;
use vharness::libwallet::{
	BlockFees, Error, InitTxArgs, IssueInvoiceTxArgs, PaymentProof, Slate, Slatepacker,
	SlatepackerArgs, WalletInst, WalletLCProvider,
};
use vharness::node::ChainNode;
use vharness::prng::{seed_from_env, Prng};
use vharness::scen::*;
use vharness::*;

type O = Owner<LC, ChainNode, ExtKeychain>;

/// (method, variant, takes a token, failing validations of the scenario)
fn table() -> Vec<(&'static str, u64, bool)> {
	vec![
		("set_tor_config", 0, false),
		("accounts", 0, true),
		("create_account_path", 0, true),
		("retrieve_outputs", 0, true),
		("retrieve_outputs", 1, true),
		("retrieve_txs", 0, true),
		("retrieve_txs", 1, true),
		("retrieve_summary_info", 0, true),
		("retrieve_summary_info", 1, true),
		("init_send_tx", 1, true),
		("init_send_tx", 0, true),
		("init_send_tx", 2, true),
		("issue_invoice_tx", 0, true),
		("process_invoice_tx", 0, true),
		("tx_lock_outputs", 0, true),
		("finalize_tx", 0, true),
		("post_tx", 0, true),
		("get_stored_tx", 0, true),
		("get_rewind_hash", 0, true),
		("scan_rewind_hash", 0, false),
		("scan", 0, true),
		("node_height", 0, true),
		("get_top_level_directory", 0, false),
		("set_top_level_directory", 0, false),
		("create_config", 0, false),
		("create_wallet", 0, false),
		("open_wallet", 0, false),
		("get_mnemonic", 0, false),
		("change_password", 0, false),
		("start_updater", 0, true),
		("stop_updater", 0, false),
		("get_updater_messages", 0, false),
		("get_slatepack_address", 0, true),
		("get_slatepack_secret_key", 0, true),
		("create_slatepack_message", 0, true),
		("create_slatepack_message", 1, true),
		("slate_from_slatepack_message", 0, true),
		("slate_from_slatepack_message", 1, true),
		("decode_slatepack_message", 0, true),
		("decode_slatepack_message", 1, true),
		("retrieve_payment_proof", 0, true),
		("retrieve_payment_proof", 1, true),
		("retrieve_payment_proof", 2, true),
		("verify_payment_proof", 0, true),
		("build_output", 0, true),
		("create_mwixnet_req", 0, true),
		("cancel_tx", 0, true),
		("set_active_account", 0, true),
	]
}

struct Cx {
	slate: Slate,
	invoice: Slate,
	msg: String,
	proof: PaymentProof,
	n: u64,
	label_exists: bool,
	label_seq: Option<u64>,
	invoice_done: bool,
	pw_right: bool,
	top: String,
}

fn cls<T>(r: &Result<Result<T, Error>, String>) -> Vec<i64> {
	match r {
		Err(_) => vec![2],
		Ok(Err(e)) => vec![1, err_class(e) as i64],
		Ok(Ok(_)) => vec![0],
	}
}

fn js<T: serde::Serialize>(r: &Result<Result<T, Error>, String>) -> String {
	match r {
		Ok(Ok(v)) => serde_json::to_string(v).unwrap_or_default(),
		_ => String::new(),
	}
}

/// Call one method variant; returns (class, canonical value where the value is a
/// deterministic function of seed and history).
fn call(o: &O, m: &str, v: u64, tok: Option<&SecretKey>, cx: &mut Cx) -> (Vec<i64>, String) {
	cx.n += 1;
	let send_args = |v: u64| InitTxArgs {
		amount: 1_000_000_000,
		minimum_confirmations: 1,
		max_outputs: 500,
		num_change_outputs: 1,
		selection_strategy_is_use_all: false,
		estimate_only: Some(v == 1),
		late_lock: Some(v == 2),
		..Default::default()
	};
	macro_rules! run {
		($e:expr) => {{
			let r = guarded(|| $e);
			(cls(&r), String::new())
		}};
	}
	macro_rules! runv {
		($e:expr) => {{
			let r = guarded(|| $e);
			(cls(&r), js(&r))
		}};
	}
	match m {
		"set_tor_config" => {
			let r: Result<Result<(), Error>, String> = guarded(|| {
				o.set_tor_config(None);
				Ok(())
			});
			(cls(&r), String::new())
		}
		"accounts" => runv!(o.accounts(tok)),
		"create_account_path" => {
			let label = if cx.label_exists {
				"default".to_owned()
			} else {
				match cx.label_seq {
					Some(k) => format!("acct{:05}", k),
					None => format!("wrong{}", cx.n),
				}
			};
			run!(o.create_account_path(tok, &label))
		}
		"set_active_account" => run!(o.set_active_account(tok, "second")),
		"retrieve_outputs" => run!(o.retrieve_outputs(tok, true, v == 1, None)),
		"retrieve_txs" => run!(o.retrieve_txs(tok, v == 1, None, None, None)),
		"retrieve_summary_info" => runv!(o.retrieve_summary_info(tok, v == 1, 1).map(|x| x.1)),
		"init_send_tx" => run!(o.init_send_tx(tok, send_args(v))),
		"issue_invoice_tx" => run!(o.issue_invoice_tx(
			tok,
			IssueInvoiceTxArgs {
				dest_acct_name: None,
				amount: 1_000_000_000,
				target_slate_version: None
			}
		)),
		"process_invoice_tx" => run!(o.process_invoice_tx(tok, &cx.invoice, send_args(0))),
		"tx_lock_outputs" => run!(o.tx_lock_outputs(tok, &cx.slate)),
		"finalize_tx" => run!(o.finalize_tx(tok, &cx.slate)),
		"post_tx" => run!(o.post_tx(tok, &cx.slate, false)),
		"cancel_tx" => run!(o.cancel_tx(tok, None, Some(cx.slate.id))),
		"get_stored_tx" => run!(o.get_stored_tx(tok, None, Some(&cx.slate.id))),
		"get_rewind_hash" => runv!(o.get_rewind_hash(tok)),
		"scan_rewind_hash" => run!(o.scan_rewind_hash("ab".repeat(32), None)),
		"scan" => run!(o.scan(tok, None, false)),
		"node_height" => runv!(o.node_height(tok).map(|h| h.height)),
		"get_top_level_directory" => runv!(o.get_top_level_directory()),
		"set_top_level_directory" => run!(o.set_top_level_directory(&cx.top)),
		"create_config" => run!(o.create_config(&ChainTypes::AutomatedTesting, None, None, None)),
		"create_wallet" => run!(o.create_wallet(None, None, 32, ZeroingString::from(""))),
		"open_wallet" => run!(o.open_wallet(None, ZeroingString::from(if cx.pw_right { "" } else { "wrong" }), true)),
		"close_wallet" => run!(o.close_wallet(None)),
		"get_mnemonic" => run!(o.get_mnemonic(None, ZeroingString::from(if cx.pw_right { "" } else { "wrong" }))),
		"change_password" => {
			let r = guarded(|| {
				o.change_password(
					None,
					ZeroingString::from(if cx.pw_right { "" } else { "wrong" }),
					ZeroingString::from("pw2"),
				)
			});
			if let Ok(Ok(())) = r {
				// restore the empty password used by the scenario
				let _ = o.change_password(None, ZeroingString::from("pw2"), ZeroingString::from(""));
			}
			(cls(&r), String::new())
		}
		"delete_wallet" => run!(o.delete_wallet(None)),
		"start_updater" => {
			let r = guarded(|| o.start_updater(tok, Duration::from_millis(40)));
			std::thread::sleep(Duration::from_millis(120));
			(cls(&r), String::new())
		}
		"stop_updater" => {
			let r = guarded(|| o.stop_updater());
			std::thread::sleep(Duration::from_millis(150));
			(cls(&r), String::new())
		}
		"get_updater_messages" => run!(o.get_updater_messages(1000)),
		"get_slatepack_address" => runv!(o.get_slatepack_address(tok, 0)),
		"get_slatepack_secret_key" => {
			let r = guarded(|| o.get_slatepack_secret_key(tok, 0).map(|k| k.as_bytes().to_vec().to_hex()));
			(cls(&r), js(&r))
		}
		"create_slatepack_message" => {
			run!(o.create_slatepack_message(tok, &cx.slate, if v == 1 { Some(0) } else { None }, vec![]))
		}
		"slate_from_slatepack_message" => {
			run!(o.slate_from_slatepack_message(tok, cx.msg.clone(), if v == 1 { vec![0] } else { vec![] }))
		}
		"decode_slatepack_message" => {
			run!(o.decode_slatepack_message(tok, cx.msg.clone(), if v == 1 { vec![0] } else { vec![] }))
		}
		"retrieve_payment_proof" => {
			run!(o.retrieve_payment_proof(tok, v == 1, if v == 2 { None } else { Some(0) }, None))
		}
		"verify_payment_proof" => run!(o.verify_payment_proof(tok, &cx.proof)),
		"build_output" => {
			let r = guarded(|| {
				o.build_output(tok, OutputFeatures::Plain, 1000)
					.map(|b| format!("{:?}|{}", b.key_id, b.output.commitment().0.to_vec().to_hex()))
			});
			(cls(&r), js(&r))
		}
		"create_mwixnet_req" => {
			let secp_inst = static_secp_instance();
			let sk = {
				let secp = secp_inst.lock();
				SecretKey::from_slice(&secp, &[7u8; 32]).unwrap()
			};
			let params = MixnetReqCreationParams {
				server_keys: vec![sk.clone(), sk],
				fee_per_hop: 1_000_000,
			};
			let commit = Commitment::from_vec(vec![9u8; 33]);
			run!(o.create_mwixnet_req(tok, &params, &commit, false))
		}
		_ => (vec![9], String::new()),
	}
}

fn sha_file(h: &mut Sha256, p: &str) {
	if let Ok(b) = std::fs::read(p) {
		h.update(&b);
	}
	h.update(b"|");
}

struct Wal {
	idx: usize,
	owner: O,
	dir: String,
	files_only: std::cell::Cell<bool>,
}

impl Wal {
	fn is_open(&self, s: &Scen) -> bool {
		let mut l = s.wallets[self.idx].inst.lock();
		let lc = l.lc_provider().unwrap();
		lc.wallet_inst().is_ok()
	}
	/// (stored-state fingerprint, in-memory fingerprint)
	fn fingerprint(&self, s: &Scen, logical: bool) -> (String, String) {
		let mut h = Sha256::new();
		if !logical {
			sha_file(&mut h, &format!("{}/wallet_data/db/lmdb/data.mdb", self.dir));
		}
		sha_file(&mut h, &format!("{}/wallet_data/wallet.seed", self.dir));
		let mut names: Vec<String> = std::fs::read_dir(format!("{}/wallet_data/saved_txs", self.dir))
			.map(|d| {
				d.filter_map(|e| e.ok())
					.map(|e| format!("{}:{}", e.file_name().to_string_lossy(), e.metadata().map(|m| m.len()).unwrap_or(0)))
					.collect()
			})
			.unwrap_or_default();
		names.sort();
		let open = self.is_open(s);
		let (snap, active) = if open {
			let v = s.snapshot(self.idx);
			let a = v["active"].clone();
			let mut v2 = v.clone();
			v2["active"] = Value::Null;
			(v2.to_string(), a.to_string())
		} else {
			(String::new(), String::new())
		};
		let exists = std::path::Path::new(&format!("{}/wallet_data", self.dir)).exists();
		(
			format!("{}|{:?}|{}|{}", h.finalize().to_vec().to_hex(), names, exists, if self.files_only.get() { String::new() } else { snap }),
			format!("{}|{}", open, active),
		)
	}
	/// logical snapshot with slate ids replaced by order of appearance (twin comparison)
	fn canon(&self, s: &Scen) -> String {
		if !self.is_open(s) {
			return "closed".into();
		}
		let mut v = s.snapshot(self.idx);
		let mut ids: Vec<String> = vec![];
		if let Some(txs) = v["txs"].as_array_mut() {
			for t in txs.iter_mut() {
				if let Some(sid) = t["slate"].as_str().map(|x| x.to_owned()) {
					let i = match ids.iter().position(|x| *x == sid) {
						Some(i) => i,
						None => {
							ids.push(sid);
							ids.len() - 1
						}
					};
					t["slate"] = json!(i);
				}
			}
		}
		// tx-log ids of confirmed coinbases are assigned in HashMap iteration order
		if let Some(txs) = v["txs"].as_array_mut() {
			for t in txs.iter_mut() {
				if t["type"] == json!(0) {
					t["id"] = Value::Null;
				}
			}
			txs.sort_by_key(|t| t.to_string());
		}
		if let Some(outs) = v["outputs"].as_array_mut() {
			for o in outs.iter_mut() {
				if o["cb"] == json!(true) {
					o["tx"] = Value::Null;
				}
			}
		}
		if let Some(ch) = v["child"].as_array_mut() {
			ch.sort_by_key(|x| x[0].as_u64().unwrap_or(0));
		}
		v.to_string()
	}
}

fn mine_twin(s: &Scen, m: usize, u: usize, n: usize) {
	for _ in 0..n {
		let prev = s.node.chain.head_header().unwrap();
		let bf = BlockFees {
			fees: 0,
			key_id: None,
			height: prev.height + 1,
		};
		let cb_m = s.with(m, |b, k| foreign::build_coinbase(b, k, &bf, false)).unwrap();
		let cb_u = s.with(u, |b, k| foreign::build_coinbase(b, k, &bf, false)).unwrap();
		assert_eq!(cb_m.output.commitment(), cb_u.output.commitment(), "twin wallets diverged");
		let block = s.node.build_block(&prev, &[], (cb_m.output, cb_m.kernel));
		s.node.process(block).unwrap();
	}
}

fn token_of(kind: u64, own: &Option<SecretKey>, other: &SecretKey, p: &mut Prng) -> Option<SecretKey> {
	let secp_inst = static_secp_instance();
	let secp = secp_inst.lock();
	match kind {
		0 => own.clone(),
		1 => None,
		2 => {
			let mut b = p.bytes(32);
			b[0] &= 0x7f;
			b[31] |= 1;
			Some(SecretKey::from_slice(&secp, &b).unwrap())
		}
		3 => {
			let mut b = own.as_ref().map(|k| k.0.to_vec()).unwrap_or(vec![1u8; 32]);
			let i = p.below(32) as usize;
			b[i] ^= 1 << p.below(7);
			Some(SecretKey::from_slice(&secp, &b).unwrap_or_else(|_| SecretKey::from_slice(&secp, &[3u8; 32]).unwrap()))
		}
		_ => Some(other.clone()),
	}
}

struct Run<'a> {
	out: &'a mut Out,
	id: u64,
	nontrivial: u64,
}

#[allow(clippy::too_many_arguments)]
fn row(
	run: &mut Run,
	s: &Scen,
	w: &Wal,
	cx: &mut Cx,
	state: &str,
	m: &str,
	v: u64,
	takes: bool,
	masked: bool,
	kind: u64,
	tok: Option<&SecretKey>,
	upd: bool,
) -> (Vec<i64>, String) {
	let open = w.is_open(s);
	let down = s.node.down.load(std::sync::atomic::Ordering::Relaxed);
	let logical = !takes;
	let mut vals: Vec<u64> = vec![];
	if m == "create_account_path" && cx.label_exists {
		vals.push(1);
	}
	if m == "create_wallet" {
		vals.push(13);
	}
	if m == "create_config" && std::path::Path::new(&format!("{}/grin-wallet.toml", cx.top)).exists() {
		vals.push(12);
	}
	if m == "retrieve_payment_proof" {
		vals.push(17);
	}
	if m == "init_send_tx" && v == 1 && state == "fresh" {
		vals.push(21);
	}
	w.files_only.set(m == "close_wallet" || m == "open_wallet");
	let (st0, mem0) = w.fingerprint(s, logical);
	let (class, val) = call(&w.owner, m, v, tok, cx);
	let (st1, mem1) = w.fingerprint(s, logical);
	let stored = (st0 != st1) as i64;
	let any = (st0 != st1 || mem0 != mem1) as i64;
	let mut fails: Vec<String> = vec![];
	let right = if masked { kind == 0 } else { kind <= 1 };
	if m == "process_invoice_tx" && right && class == vec![0] {
		cx.invoice_done = true;
	}
	if class == vec![2] {
		fails.push(format!("{} panicked", m));
	}
	if takes && !right && open {
		if any != 0 {
			fails.push(format!("{}(v{}) with a wrong token (kind {}) changed wallet state", m, v, kind));
		}
	}
	if takes && right && class == vec![1, 11] {
		fails.push(format!("{}(v{}) refused the right token", m, v));
	}
	// a call that refreshes from the node derives keys (the commitments it asks the node about): on an
	// open masked wallet, with the node reachable and no updater thread doing the refreshing, a wrong or
	// missing token is refused as such — not answered with the wallet's data as if the node were down
	let refreshes = v == 1 && ["retrieve_outputs", "retrieve_txs", "retrieve_summary_info", "retrieve_payment_proof"].contains(&m);
	if refreshes && takes && masked && !right && open && !down && !upd && class != vec![1, 11] && class != vec![2] {
		fails.push(format!(
			"{}(refresh_from_node = true) with a wrong token (kind {}) on an open masked wallet was not refused as an invalid token: class {:?}",
			m, kind, class
		));
	}
	if takes && !open && any != 0 {
		fails.push(format!("{}(v{}) changed state of a closed wallet", m, v));
	}
	let mut imp = class.clone();
	imp.push(stored);
	imp.push(any);
	run.out.line(&json!({
		"id": run.id,
		"case": {"m": m, "v": v, "takes": takes, "masked": masked, "tok": kind, "open": open, "down": down,
			"upd": upd, "pw": cx.pw_right, "vals": vals, "state": state},
		"impl": imp,
		"oracle": fails,
	}));
	run.id += 1;
	if class == vec![0] && right {
		run.nontrivial += 1;
	}
	(class, val)
}

fn scenario(run: &mut Run, dir: &str, state: &str, p: &mut Prng, closed_phase: bool) {
	let mut s = Scen::new(dir);
	// a seed shared by M and U
	let src = s.add_wallet("seedsrc", None, false);
	let mnemonic = {
		let mut l = s.wallets[src].inst.lock();
		let lc = l.lc_provider().unwrap();
		lc.get_mnemonic(None, ZeroingString::from("")).unwrap().to_string()
	};
	let mi = s.add_wallet("m", Some(&mnemonic), true);
	let ui = s.add_wallet("u", Some(&mnemonic), false);
	let oi = s.add_wallet("o", None, true);
	let mk = |s: &Scen, i: usize| Wal {
		idx: i,
		owner: Owner::new(s.wallets[i].inst.clone(), None),
		dir: format!("{}/{}", s.dir, s.wallets[i].name),
		files_only: std::cell::Cell::new(false),
	};
	let (wm, wu, wo) = (mk(&s, mi), mk(&s, ui), mk(&s, oi));
	let otok = s.wallets[oi].mask.clone().unwrap();
	let mtok = s.wallets[mi].mask.clone();
	assert!(mtok.is_some());

	wm.owner.create_account_path(mtok.as_ref(), "second").unwrap();
	wu.owner.create_account_path(None, "second").unwrap();
	if state != "fresh" {
		mine_twin(&s, mi, ui, 6);
		wm.owner.retrieve_summary_info(mtok.as_ref(), true, 1).unwrap();
		wu.owner.retrieve_summary_info(None, true, 1).unwrap();
	} else {
		s.mine(oi, 1);
	}
	let blank = Slate::blank(2, false);
	let invoice = wo
		.owner
		.issue_invoice_tx(
			Some(&otok),
			IssueInvoiceTxArgs {
				dest_acct_name: None,
				amount: 1_000_000_000,
				target_slate_version: None,
			},
		)
		.unwrap();
	let packer = Slatepacker::new(SlatepackerArgs {
		sender: None,
		recipients: vec![],
		dec_key: None,
	});
	let msg = packer.armor_slatepack(&packer.create_slatepack(&invoice).unwrap()).unwrap();
	let proof: PaymentProof = serde_json::from_value(json!({
		"amount": "60000000000",
		"excess": "09eac5f5872fa5e08e0c29fd900f1b8f77ff3ad1d0d1c46aeb202cbf92363fe0af",
		"recipient_address": "slatepack10qlk22rxjap2ny8qltc2tl996kenxr3hhwuu6hrzs6tdq08yaqgqnlumr7",
		"recipient_sig": "02868f2d2b983981f8f98043701687a8531ed2de564ea3df48e9e7e0229ccbe8359efe506896df2efbe3528e977252c50e4a41ca3cc9896e7c5a30bbb1d33604",
		"sender_address": "slatepack1xtxavwfgs48ckf3gk8wwgcndmn0nt4tvkl8a7ltyejjcy2mc6nfskdvkdu",
		"sender_sig": "c511764f3f61ed3d1cbca9514df8bc6811fad5662b1cb0e0587b9c9e49db9f33183cce71af6cb24b507fabf525a2bc405c6e84e63a60334edff0b451ae5e6102"
	}))
	.unwrap();
	let mkcx = |slate: Slate, top: String| Cx {
		slate,
		invoice: invoice.clone(),
		msg: msg.clone(),
		proof: proof.clone(),
		n: 0,
		label_exists: false,
		label_seq: None,
		invoice_done: false,
		pw_right: true,
		top,
	};
	let (mut cm, mut cu) = (mkcx(blank.clone(), wm.dir.clone()), mkcx(blank.clone(), wu.dir.clone()));
	if state == "pending" {
		let a = InitTxArgs {
			amount: 2_000_000_000,
			minimum_confirmations: 1,
			max_outputs: 500,
			num_change_outputs: 1,
			selection_strategy_is_use_all: false,
			..Default::default()
		};
		cm.slate = wm.owner.init_send_tx(mtok.as_ref(), a.clone()).unwrap();
		cu.slate = wu.owner.init_send_tx(None, a).unwrap();
		wm.owner.tx_lock_outputs(mtok.as_ref(), &cm.slate).unwrap();
		wu.owner.tx_lock_outputs(None, &cu.slate).unwrap();
	}

	let mut labels = 0u64;
	for down in [false, true].iter() {
		s.node.down.store(*down, std::sync::atomic::Ordering::Relaxed);
		for (m, v, takes) in table() {
			if takes {
				let label_runs: Vec<bool> = if m == "create_account_path" { vec![false, true] } else { vec![false] };
				for le in label_runs {
					cm.label_exists = le;
					cu.label_exists = le;
					for kind in [1u64, 2, 3, 4].iter() {
						let t = token_of(*kind, &mtok, &otok, p);
						row(run, &s, &wm, &mut cm, state, m, v, takes, true, *kind, t.as_ref(), false);
						if m == "start_updater" {
							// the refused updater thread leaves updater_running set: clear it
							let _ = wm.owner.stop_updater();
						}
					}
					for kind in [2u64, 4].iter() {
						let t = token_of(*kind, &None, &otok, p);
						row(run, &s, &wu, &mut cu, state, m, v, takes, false, *kind, t.as_ref(), false);
						if m == "start_updater" {
							let _ = wu.owner.stop_updater();
						}
					}
					// twin run with the right tokens
					labels += 1;
					cm.label_seq = Some(labels);
					cu.label_seq = Some(labels);
					let (c1, v1) = row(run, &s, &wm, &mut cm, state, m, v, takes, true, 0, mtok.as_ref(), false);
					let (c2, v2) = row(run, &s, &wu, &mut cu, state, m, v, takes, false, 1, None, false);
					if m == "start_updater" {
						let _ = wm.owner.stop_updater();
						let _ = wu.owner.stop_updater();
						std::thread::sleep(Duration::from_millis(250));
					}
					if m == "set_active_account" {
						// back to the funded account for the next round
						let _ = wm.owner.set_active_account(mtok.as_ref(), "default");
						let _ = wu.owner.set_active_account(None, "default");
					}
					cm.label_seq = None;
					cu.label_seq = None;
					let (s1, s2) = (wm.canon(&s), wu.canon(&s));
					if s1 != s2 && std::env::var("C14_DEBUG").is_ok() {
						eprintln!("TWIN {} {}\n{}\n{}", m, v, s1, s2);
					}
					if c1 != c2 || v1 != v2 || s1 != s2 {
						run.out.line(&json!({"id": run.id, "case": {"m": m, "v": v, "takes": true, "twin": true, "state": state, "down": down},
							"impl": [], "oracle": [format!("{}(v{}) with the right token differs from the unmasked wallet with the same seed: class {:?} vs {:?}, value equal {}, state equal {}", m, v, c1, c2, v1 == v2, s1 == s2)]}));
						run.id += 1;
					}
				}
			} else {
				// token-less methods: password right / wrong where there is one
				let pws: Vec<bool> = match m {
					"open_wallet" => vec![false],
					"get_mnemonic" | "change_password" => vec![false, true],
					_ => vec![true],
				};
				for pw in pws {
					cm.pw_right = pw;
					row(run, &s, &wm, &mut cm, state, m, v, takes, true, 1, None, false);
				}
				cm.pw_right = true;
			}
		}
	}
	s.node.down.store(false, std::sync::atomic::Ordering::Relaxed);

	if closed_phase {
		// the refresh variants while an updater thread (started with the right token) is running: the
		// retrieve_* calls then leave the refresh to it. (Before the fix that clears the flag of an
		// updater that gives up, a thread refused for its token left the same flag set for good.)
		row(run, &s, &wm, &mut cm, state, "start_updater", 0, true, true, 0, mtok.as_ref(), false);
		std::thread::sleep(Duration::from_millis(150));
		for m in ["retrieve_outputs", "retrieve_txs", "retrieve_summary_info", "retrieve_payment_proof"].iter() {
			for kind in [1u64, 2, 3, 4].iter() {
				let t = token_of(*kind, &mtok, &otok, p);
				row(run, &s, &wm, &mut cm, state, m, 1, true, true, *kind, t.as_ref(), true);
			}
		}
		row(run, &s, &wm, &mut cm, state, "stop_updater", 0, false, true, 1, None, true);

		// (for the comparison after the reopen: the pending send's private context as the right token reads it)
		let ctx_before: Option<(String, String)> = if state == "pending" {
			s.with(wm.idx, |b, _| b.get_private_context(mtok.as_ref(), cm.slate.id.as_bytes()).ok())
				.map(|c| (format!("{:?}", c.sec_key), format!("{:?}", c.sec_nonce)))
		} else {
			None
		};
		// everything on the closed wallet
		row(run, &s, &wm, &mut cm, state, "close_wallet", 0, false, true, 1, None, false);
		for (m, v, takes) in table() {
			if !takes {
				continue;
			}
			for kind in [0u64, 1, 2].iter() {
				let t = token_of(*kind, &mtok, &otok, p);
				row(run, &s, &wm, &mut cm, state, m, v, takes, true, *kind, t.as_ref(), false);
				if m == "start_updater" {
					let _ = wm.owner.stop_updater();
					std::thread::sleep(Duration::from_millis(100));
				}
			}
		}
		// reopen through the API with the right password: a fresh token is issued
		cm.pw_right = true;
		let newtok = wm.owner.open_wallet(None, ZeroingString::from(""), true).unwrap();
		// what is stored under the seed does not depend on the session: the pending send's context read
		// with the NEW session's token is the one that was read before the wallet was closed
		if let Some(before) = &ctx_before {
			let after: Option<(String, String)> =
				s.with(wm.idx, |b, _| b.get_private_context(newtok.as_ref(), cm.slate.id.as_bytes()).ok())
					.map(|c| (format!("{:?}", c.sec_key), format!("{:?}", c.sec_nonce)));
			run.id += 1;
			run.out.line(&json!({"id": run.id, "case": {"m": "context_across_reopen", "v": 0, "takes": true, "twin": true, "state": state, "down": false},
				"impl": [],
				"oracle": if after.as_ref() == Some(before) { json!([]) } else {
					json!([format!("the pending send's private context read with the right token of the new session {} the one stored before the wallet was closed: what a masked wallet stores depends on the session token, not only on the seed",
						if after.is_some() { "differs from" } else { "cannot be read; it is not" })]) }}));
		}
		let old = mtok.clone();
		for (kind, t) in [(0u64, newtok.clone()), (4u64, old)].iter() {
			// the token of the previous opening is now a wrong token
			row(run, &s, &wm, &mut cm, state, "accounts", 0, true, true, *kind, t.as_ref(), false);
			row(run, &s, &wm, &mut cm, state, "create_account_path", 0, true, true, *kind, t.as_ref(), false);
		}

		// delete_wallet on a scratch wallet: no credential, everything gone
		let di = s.add_wallet("d", None, true);
		let wd = mk(&s, di);
		let mut cd = mkcx(blank.clone(), wd.dir.clone());
		{
			let mut l = s.wallets[di].inst.lock();
			let _ = l.lc_provider().unwrap().close_wallet(None);
		}
		row(run, &s, &wd, &mut cd, state, "delete_wallet", 0, false, true, 1, None, false);
	}
	drop((wm, wu, wo));
	drop(s);
	let _ = std::fs::remove_dir_all(dir);
}

fn main() {
	quiet_panics();
	let out_path = arg("out").expect("--out");
	let mut out = Out::create(&out_path);
	let dir = format!("/tmp/vh_c14_{}", std::process::id());
	let mut p = Prng::new(seed_from_env());
	let mut run = Run {
		out: &mut out,
		id: 0,
		nontrivial: 0,
	};
	let states: Vec<String> = match arg("states") {
		Some(s) => s.split(',').map(|x| x.to_owned()).collect(),
		None => vec!["fresh".into(), "funded".into(), "pending".into()],
	};
	let rounds = arg_u64("rounds", 1);
	for r in 0..rounds {
		for (i, st) in states.iter().enumerate() {
			let sdir = format!("{}/r{}_{}", dir, r, st);
			let res = guarded(|| scenario(&mut run, &sdir, st, &mut p, i >= 1 || states.len() == 1));
			if let Err(msg) = res {
				// a panic outside a guarded call (scenario set-up with the right tokens)
				run.out.line(&json!({"id": run.id, "case": {"m": "scenario", "v": 0, "takes": true, "twin": true, "state": st},
					"impl": [], "oracle": [format!("scenario {} could not be driven with the right tokens: {}", st, msg)]}));
				run.id += 1;
				let _ = std::fs::remove_dir_all(&sdir);
			}
		}
	}
	out.finish();
	let _ = std::fs::remove_dir_all(&dir);
}
