//! C16 correspondence + oracle runner: restore a fresh wallet from the same recovery phrase
//! by scanning, and repair injected divergences by scanning; compared with
//! coq/theories/Scan.v [scan_repair] and with the chain's truth.
use grin_core::core::Transaction;
use grin_util::secp::pedersen::Commitment;
use grin_util::ZeroingString;
use serde_json::{json, Value};
use std::collections::BTreeMap;
use std::sync::atomic::Ordering;
use vharness::libwallet::api_impl::{foreign, owner};
use vharness::libwallet::verif_hooks::updater;
use vharness::libwallet::{InitTxArgs, OutputData, OutputStatus, WalletLCProvider};
use vharness::prng::{seed_from_env, Prng};
use vharness::scen::*;
use vharness::*;

struct Known {
	key: (u64, u64),
	value: u64,
	cb: bool,
}

struct Run {
	s: Scen,
	p: Prng,
	known: BTreeMap<String, Known>, // commit hex -> what it is (wallet 0's seed)
}

impl Run {
	fn learn(&mut self, i: usize) {
		let outs: Vec<OutputData> = self.s.with(i, |b, _| b.iter().collect());
		for o in outs {
			if let Some(c) = &o.commit {
				self.known.entry(c.clone()).or_insert(Known {
					key: key_pair(&o.key_id),
					value: o.value,
					cb: o.is_coinbase,
				});
			}
		}
	}
	/// the seed's outputs currently in the UTXO set, in PMMR order
	fn chain_outs(&self) -> Vec<Value> {
		let chain = &self.s.node.chain;
		let mut v = vec![];
		for (c, k) in &self.known {
			let commit = Commitment::from_vec(grin_util::from_hex(c).unwrap());
			if let Some((_, pos)) = chain.get_unspent(commit).unwrap() {
				let lock = if k.cb { pos.height + 3 } else { pos.height };
				v.push((pos.pos, json!({"key": [k.key.0, k.key.1], "value": k.value.to_string(),
					"height": pos.height, "lock": lock, "cb": k.cb, "mmr": pos.pos})));
			}
		}
		v.sort_by_key(|x| x.0);
		v.into_iter().map(|x| x.1).collect()
	}
	fn pay(&mut self, from: usize, to: usize, amount: u64, src: Option<&str>, dest: Option<&str>, change: u32) -> bool {
		let args = InitTxArgs {
			src_acct_name: src.map(|s| s.to_owned()),
			amount,
			minimum_confirmations: 1,
			max_outputs: 500,
			num_change_outputs: change,
			selection_strategy_is_use_all: self.p.coin(),
			..Default::default()
		};
		let r = guarded(|| -> Result<Transaction, vharness::libwallet::Error> {
			let s1 = self.s.with(from, |b, m| owner::init_send_tx(b, m, args, false))?;
			let s2 = self.s.with(to, |b, m| foreign::receive_tx(b, m, &s1, dest, false))?;
			self.s.with(from, |b, m| owner::tx_lock_outputs(b, m, &s2))?;
			let s3 = self.s.with(from, |b, m| owner::finalize_tx(b, m, &s2))?;
			Ok(s3.tx_or_err()?.clone())
		});
		match r {
			Ok(Ok(tx)) => {
				let miner = self.p.below(2) as usize;
				self.s.mine_block(miner, &[tx]).is_ok()
			}
			_ => false,
		}
	}
	fn refresh_all(&mut self, i: usize) {
		for name in &["default", "a1", "a2"] {
			self.s.with(i, |b, m| {
				let _ = owner::set_active_account(b, name);
				let pk = b.parent_key_id();
				let _ = updater::refresh_outputs(b, m, &pk, true);
			});
		}
		self.s.with(i, |b, _| owner::set_active_account(b, "default")).unwrap();
	}
	fn node_view(&self, i: usize) -> Value {
		let chain = self.s.node.chain.clone();
		let tip = self.s.node.height();
		self.s.with(i, |b, _| {
			let mut presence = vec![];
			for o in b.iter() {
				if let Some(c) = &o.commit {
					let commit = Commitment::from_vec(grin_util::from_hex(c).unwrap());
					if chain.get_unspent(commit).unwrap().is_some() {
						let h = chain.get_header_for_output(commit).unwrap().height;
						let (a, c) = key_pair(&o.key_id);
						presence.push(json!([a, c, o.mmr_index, h]));
					}
				}
			}
			let mut missing = vec![];
			for t in b.tx_log_iter() {
				if let Some(e) = t.kernel_excess {
					if chain.get_kernel_height(&e, t.kernel_lookup_min_height, None).unwrap().is_none() {
						missing.push(json!([key_pair(&t.parent_key_id).0, t.id]));
					}
				}
			}
			json!({"tip": tip, "presence": presence, "kernel_missing": missing})
		})
	}
}

fn main() {
	quiet_panics();
	init_thread();
	let out_path = arg("out").expect("--out");
	let n = arg_u64("n", 4);
	let shard = arg_u64("shard", 0);
	let base = format!("/tmp/vh_c16_{}_{}", std::process::id(), shard);
	let mut out = Out::create(&out_path);
	let seed = seed_from_env();
	for h in 0..n {
		let hseed = seed.wrapping_mul(1_000_003).wrapping_add(shard * 10_007 + h);
		let dir = format!("{}/h{}", base, h);
		let mut s = Scen::new(&dir);
		s.add_wallet("w0", None, false);
		s.add_wallet("w1", None, false);
		for i in 0..2 {
			s.with(i, |b, m| owner::create_account_path(b, m, "a1")).unwrap();
			s.with(i, |b, m| owner::create_account_path(b, m, "a2")).unwrap();
		}
		let mut r = Run { s, p: Prng::new(hseed), known: BTreeMap::new() };
		// in half of the histories the funded second account is the THIRD path: the account in
		// between never holds anything (a gap in the funded account paths)
		let fa: &'static str = if r.p.coin() { "a2" } else { "a1" };
		// ... and in a third of them BOTH further accounts hold outputs
		let both = r.p.chance(1, 3);
		// ---- activity of wallet 0 (and its counterparty 1)
		let n_blocks = r.p.range(4, 9);
		for k in 0..n_blocks {
			if k == n_blocks / 2 {
				r.s.with(0, |b, _| owner::set_active_account(b, fa)).unwrap();
			}
			if both && k == n_blocks / 2 + 1 {
				let other = if fa == "a1" { "a2" } else { "a1" };
				r.s.with(0, |b, _| owner::set_active_account(b, other)).unwrap();
			}
			r.s.mine(0, 1);
			r.learn(0);
			if r.p.chance(1, 3) {
				r.s.mine(1, 1);
			}
		}
		r.s.with(0, |b, _| owner::set_active_account(b, "default")).unwrap();
		r.s.mine(1, 3);
		r.refresh_all(0);
		r.refresh_all(1);
		let n_pay = r.p.range(2, 6);
		for _ in 0..n_pay {
			let amount = r.p.range(1_000_000_000, 70_000_000_000);
			let change = *r.p.pick(&[1u32, 1, 2, 3]);
			match r.p.below(5) {
				0 => { let d = if r.p.coin() { Some(fa) } else { None }; r.pay(1, 0, amount, None, d, change); }
				1 => { r.pay(0, 0, amount, None, Some(fa), change); }
				2 => { r.pay(0, 1, amount, Some(fa), None, change); }
				_ => { r.pay(0, 1, amount, None, None, change); }
			}
			r.learn(0);
			r.s.mine(1, 1);
			r.refresh_all(0);
			r.refresh_all(1);
			r.learn(0);
		}
		r.s.mine(1, 2);
		r.refresh_all(0);
		r.learn(0);
		// one history in four: the chain grows past the look-back of the wallet's periodic update (100 blocks)
		// and the wallet has seen the new tip: what it holds sits far below its last scanned block
		let long_chain = hseed % 4 == 0;
		if long_chain {
			r.s.mine(1, 104);
			r.refresh_all(0);
			// (the owner-level update records the tip as the wallet's last scanned block)
			let _ = guarded(|| owner::update_wallet_state(r.s.wallets[0].inst.clone(), None, &None, false));
			r.refresh_all(0);
			r.learn(0);
		}
		let batch = *r.p.pick(&[1u64, 2, 3, 5, 7, 1000]);
		r.s.node.pmmr_batch.store(batch, Ordering::Relaxed);

		// ---- (1) restore into a fresh wallet from the same phrase
		let phrase: String = {
			let mut l = r.s.wallets[0].inst.lock();
			let lc = l.lc_provider().unwrap();
			(&*lc.get_mnemonic(None, ZeroingString::from("")).unwrap()).to_owned()
		};
		let c = r.s.add_wallet("w2", Some(&phrase), false);
		// one restore in three: the user has already created an account before the first scan, under a
		// name of the very form the scan generates for the accounts it discovers
		let pre_label: Option<&str> = match r.p.below(6) { 0 => Some("account_2"), 1 => Some("account_1"), _ => None };
		if let Some(l) = pre_label {
			r.s.with(c, |b, m| owner::create_account_path(b, m, l)).unwrap();
		}
		let chain = r.chain_outs();
		let orig = r.s.snapshot(0);
		let res = guarded(|| owner::scan(r.s.wallets[c].inst.clone(), None, None, false, &None));
		let rc = match &res { Err(_) => vec![2u64], Ok(Err(e)) => vec![1, err_class(e)], Ok(Ok(_)) => vec![0] };
		let restored = r.s.snapshot(c);
		// the account paths the restored wallet knows (every restored output must belong to one)
		let accounts: Vec<u64> = r.s.with(c, |b, _| b.acct_path_iter().map(|m| key_pair(&m.path).0).collect());
		let res2 = guarded(|| owner::scan(r.s.wallets[c].inst.clone(), None, None, false, &None));
		let rc2 = match &res2 { Err(_) => vec![2u64], Ok(Err(e)) => vec![1, err_class(e)], Ok(Ok(_)) => vec![0] };
		let restored2 = r.s.snapshot(c);
		out.line(&json!({"kind": "restore", "seed": hseed.to_string(), "batch": batch, "chain": chain,
			"rc": rc, "orig": orig, "restored": restored, "rc2": rc2, "restored2": restored2, "accounts": accounts, "pre_label": pre_label, "both": both}));

		// ---- (1') on a long chain: a second wallet from the same phrase whose owner first scans only the last
		// blocks (scan with a start height) and then lets the wallet update itself: a wallet restored from seed
		// is not done before it has looked at the whole chain, whatever was scanned in between
		if long_chain {
			let c3 = r.s.add_wallet("w3", Some(&phrase), false);
			let tip = r.s.node.height();
			let start3 = tip.saturating_sub(3).max(1);
			let chain3 = r.chain_outs();
			let res = guarded(|| owner::scan(r.s.wallets[c3].inst.clone(), None, Some(start3), false, &None));
			let rc = match &res { Err(_) => vec![2u64], Ok(Err(e)) => vec![1, err_class(e)], Ok(Ok(_)) => vec![0] };
			let upd = guarded(|| owner::update_wallet_state(r.s.wallets[c3].inst.clone(), None, &None, false));
			let rc_update = match &upd { Err(_) => vec![2u64], Ok(Err(e)) => vec![1, err_class(e)], Ok(Ok(_)) => vec![0] };
			let restored3 = r.s.snapshot(c3);
			out.line(&json!({"kind": "restore_partial", "seed": hseed.to_string(), "chain": chain3, "rc": rc,
				"rc_update": rc_update, "restored": restored3, "start": start3, "tip": tip}));
		}

		// ---- (2) inject divergences into wallet 0 and repair by scanning
		// two times in three a send is pending (initiated, answered, reserved, not finalized)
		let mut pending = false;
		if r.p.chance(2, 3) {
			let args = InitTxArgs {
				amount: r.p.range(1_000_000_000, 30_000_000_000),
				minimum_confirmations: 1,
				max_outputs: 500,
				num_change_outputs: *r.p.pick(&[1u32, 2]),
				selection_strategy_is_use_all: r.p.chance(1, 3),
				..Default::default()
			};
			let res = guarded(|| -> Result<(), vharness::libwallet::Error> {
				let s1 = r.s.with(0, |b, m| owner::init_send_tx(b, m, args, false))?;
				let s2 = r.s.with(1, |b, m| foreign::receive_tx(b, m, &s1, None, false))?;
				r.s.with(0, |b, m| owner::tx_lock_outputs(b, m, &s2))?;
				Ok(())
			});
			pending = matches!(res, Ok(Ok(())));
			r.learn(0);
		}
		// the scan starts at the first block, or (half of the time) at a height of its own
		let tip = r.s.node.height();
		let start: Option<u64> = match r.p.below(6) {
			0 | 1 => None,
			2 => Some(1),
			_ => Some(r.p.range(2, tip.max(2))),
		};
		let outs: Vec<OutputData> = r.s.with(0, |b, _| b.iter().collect());
		let mut injected = vec![];
		for o in outs.iter() {
			if !r.p.chance(1, 3) {
				continue;
			}
			// (5, 6: the record was confirmed at another height — e.g. on a branch since abandoned —
			// and is wrongly Spent / Locked)
			// (7: still Unspent, but recorded at another height than the chain has it — confirmed on a branch
			// since abandoned and mined again while the wallet was not looking)
			let kind = r.p.below(8);
			let (a, ch) = key_pair(&o.key_id);
			r.s.with(0, |b, m| {
				let mut batch = b.batch(m).unwrap();
				match kind {
					0 => { batch.delete(&o.key_id, &o.mmr_index).unwrap(); }
					1 => { let mut x = o.clone(); x.status = OutputStatus::Spent; batch.save(x).unwrap(); }
					2 => { let mut x = o.clone(); x.status = OutputStatus::Locked; batch.save(x).unwrap(); }
					3 => { let mut x = o.clone(); x.status = OutputStatus::Unconfirmed; batch.save(x).unwrap(); }
					5 => { let mut x = o.clone(); x.status = OutputStatus::Spent; x.height = x.height.saturating_sub(1).max(1);
						if x.is_coinbase { x.lock_height = x.height + 3; } batch.save(x).unwrap(); }
					6 => { let mut x = o.clone(); x.status = OutputStatus::Locked; x.height = x.height.saturating_sub(1).max(1);
						if x.is_coinbase { x.lock_height = x.height + 3; } batch.save(x).unwrap(); }
					7 => { let mut x = o.clone(); x.status = OutputStatus::Unspent; x.height = x.height.saturating_sub(1).max(1);
						batch.save(x).unwrap(); }
					_ => { let mut x = o.clone(); x.status = OutputStatus::Unspent; batch.save(x).unwrap(); }
				}
				batch.commit().unwrap();
			});
			injected.push(json!([a, ch, o.mmr_index, kind]));
		}
		let del = r.p.coin();
		let before = r.s.snapshot(0);
		let view = r.node_view(0);
		let chain = r.chain_outs();
		let res = guarded(|| owner::scan(r.s.wallets[0].inst.clone(), None, start, del, &None));
		let rc = match &res { Err(_) => vec![2u64], Ok(Err(e)) => vec![1, err_class(e)], Ok(Ok(_)) => vec![0] };
		let after = r.s.snapshot(0);
		let res2 = guarded(|| owner::scan(r.s.wallets[0].inst.clone(), None, start, del, &None));
		let rc2 = match &res2 { Err(_) => vec![2u64], Ok(Err(e)) => vec![1, err_class(e)], Ok(Ok(_)) => vec![0] };
		let after2 = r.s.snapshot(0);
		out.line(&json!({"kind": "repair", "seed": hseed.to_string(), "batch": batch, "chain": chain, "del": del,
			"injected": injected, "view": view, "rc": rc, "before": before, "after": after, "rc2": rc2, "after2": after2,
			"start": start, "pending": pending, "long_chain": long_chain}));
		drop(r);
		let _ = std::fs::remove_dir_all(&dir);
	}
	let _ = std::fs::remove_dir_all(&base);
	out.finish();
}
