//! C19 correspondence + oracle runner: writes synthetic transaction logs straight into a
//! real LMDB wallet backend (`batch.save_tx_log_entry`), runs the real
//! `updater::retrieve_txs` (hook H1) or `owner::retrieve_txs` on generated queries and
//! prints, for each (log, call), the list of returned entries and the verdict of an
//! independent reference filter written from the field documentation of
//! `RetrieveTxQueryArgs` / `Owner::retrieve_txs`.
//!
//! entry  : [parent, id, type, confirmed, credited, debited, creation_tick, conf_tick|null, slate|null]
//!          type: 0 ConfirmedCoinbase 1 TxReceived 2 TxSent 3 TxReceivedCancelled 4 TxSentCancelled 5 TxReverted
//! query  : [min_id, max_id, limit, exclude_cancelled, outstanding_only, confirmed_only, sent_only,
//!           received_only, coinbase_only, reverted_only, min_amount, max_amount, min_creation,
//!           max_creation, min_confirmed, max_confirmed, sort_field, sort_order]   (null = omitted)
//!          sort_field: 0 Id 1 CreationTimestamp 2 ConfirmationTimestamp 3 TotalAmount 4 AmountCredited 5 AmountDebited
//!          sort_order: 0 Asc 1 Desc
//! call   : {via_owner, tx_id, slate, parent, outstanding, q}
//! result : [0, key..] with key = parent * 2^32 + id (shared with Query.v `run_case`), [2] on panic,
//!          [1, class] on error.
//! A tick t is the instant 1_600_000_000 s + t * 250 ms (monotone, sub-second part exercised).
use chrono::{DateTime, TimeZone, Utc};
use serde_json::{json, Value};
use std::collections::{BTreeMap, BTreeSet};
use uuid::Uuid;
use vharness::libwallet::api_impl::owner;
use vharness::libwallet::verif_hooks::updater;
use vharness::libwallet::{
	RetrieveTxQueryArgs, RetrieveTxQuerySortField, RetrieveTxQuerySortOrder, TxLogEntry,
	TxLogEntryType,
};
use vharness::mem::acct_id;
use vharness::prng::{seed_from_env, Prng};
use vharness::scen::{key_pair, txtype_code, Scen};
use vharness::*;

#[derive(Clone, Debug, PartialEq)]
struct E {
	parent: u32,
	id: u32,
	ty: u8,
	confirmed: bool,
	credited: u64,
	debited: u64,
	cts: i64,
	conf: Option<i64>,
	slate: Option<u32>,
}

#[derive(Clone, Debug, Default, PartialEq)]
struct Q {
	min_id: Option<u32>,
	max_id: Option<u32>,
	limit: Option<u32>,
	flags: [Option<bool>; 7], // exclude_cancelled, outstanding, confirmed, sent, received, coinbase, reverted
	min_amount: Option<u64>,
	max_amount: Option<u64>,
	min_cts: Option<i64>,
	max_cts: Option<i64>,
	min_conf: Option<i64>,
	max_conf: Option<i64>,
	sort_field: Option<u8>,
	sort_order: Option<u8>,
}

#[derive(Clone, Debug)]
struct Call {
	via_owner: bool,
	tx_id: Option<u32>,
	slate: Option<u32>,
	parent: Option<u32>,
	outstanding: bool,
	q: Option<Q>,
}

const BASE_S: i64 = 1_600_000_000;
fn ts(t: i64) -> DateTime<Utc> {
	Utc.timestamp_opt(BASE_S + t.div_euclid(4), (t.rem_euclid(4) * 250_000_000) as u32)
		.unwrap()
}
fn tick_of(d: &DateTime<Utc>) -> i64 {
	(d.timestamp() - BASE_S) * 4 + (d.timestamp_subsec_nanos() / 250_000_000) as i64
}
fn ty_of(t: u8) -> TxLogEntryType {
	match t {
		0 => TxLogEntryType::ConfirmedCoinbase,
		1 => TxLogEntryType::TxReceived,
		2 => TxLogEntryType::TxSent,
		3 => TxLogEntryType::TxReceivedCancelled,
		4 => TxLogEntryType::TxSentCancelled,
		_ => TxLogEntryType::TxReverted,
	}
}
fn slate_uuid(s: u32) -> Uuid {
	Uuid::from_u128(0x1000_0000_0000_0000_0000_0000_0000_0000u128 + s as u128)
}
fn to_entry(e: &E) -> TxLogEntry {
	let mut t = TxLogEntry::new(acct_id(e.parent), ty_of(e.ty), e.id);
	t.tx_slate_id = e.slate.map(slate_uuid);
	t.creation_ts = ts(e.cts);
	t.confirmation_ts = e.conf.map(ts);
	t.confirmed = e.confirmed;
	t.amount_credited = e.credited;
	t.amount_debited = e.debited;
	t
}
fn of_entry(t: &TxLogEntry) -> E {
	E {
		parent: key_pair(&t.parent_key_id).0 as u32,
		id: t.id,
		ty: txtype_code(&t.tx_type) as u8,
		confirmed: t.confirmed,
		credited: t.amount_credited,
		debited: t.amount_debited,
		cts: tick_of(&t.creation_ts),
		conf: t.confirmation_ts.as_ref().map(tick_of),
		slate: t.tx_slate_id.map(|u| (u.as_u128() & 0xffff_ffff) as u32),
	}
}
fn to_args(q: &Q) -> RetrieveTxQueryArgs {
	RetrieveTxQueryArgs {
		min_id: q.min_id,
		max_id: q.max_id,
		limit: q.limit,
		exclude_cancelled: q.flags[0],
		include_outstanding_only: q.flags[1],
		include_confirmed_only: q.flags[2],
		include_sent_only: q.flags[3],
		include_received_only: q.flags[4],
		include_coinbase_only: q.flags[5],
		include_reverted_only: q.flags[6],
		min_amount: q.min_amount,
		max_amount: q.max_amount,
		min_creation_timestamp: q.min_cts.map(ts),
		max_creation_timestamp: q.max_cts.map(ts),
		min_confirmed_timestamp: q.min_conf.map(ts),
		max_confirmed_timestamp: q.max_conf.map(ts),
		sort_field: q.sort_field.map(|f| match f {
			0 => RetrieveTxQuerySortField::Id,
			1 => RetrieveTxQuerySortField::CreationTimestamp,
			2 => RetrieveTxQuerySortField::ConfirmationTimestamp,
			3 => RetrieveTxQuerySortField::TotalAmount,
			4 => RetrieveTxQuerySortField::AmountCredited,
			_ => RetrieveTxQuerySortField::AmountDebited,
		}),
		sort_order: q.sort_order.map(|o| match o {
			0 => RetrieveTxQuerySortOrder::Asc,
			_ => RetrieveTxQuerySortOrder::Desc,
		}),
	}
}
fn key(e: &E) -> u64 {
	((e.parent as u64) << 32) | e.id as u64
}

// ------------------------------------------------------------------ reference filter (oracle)
// Written from the documentation: RetrieveTxQueryArgs field comments (api_impl/types.rs),
// Owner::retrieve_txs ("from the active account", "if tx_id or tx_slate_id is provided
// query args are ignored") and updater::retrieve_txs ("if parent_key_id is set, only
// return entries from that key"). Where the documentation leaves a choice open the
// reading below is the one recorded in design.d/C19.md.

/// net amount of an entry: what left the wallet for sent entries, what arrived otherwise
fn net_amount(e: &E) -> i128 {
	if e.ty == 2 || e.ty == 4 {
		e.debited as i128 - e.credited as i128
	} else {
		e.credited as i128 - e.debited as i128
	}
}

/// names of the supplied criteria that entry `e` violates
fn violated(e: &E, c: &Call) -> Vec<&'static str> {
	let mut v = vec![];
	if let Some(p) = c.parent {
		if e.parent != p {
			v.push("account");
		}
	}
	let advanced = c.q.is_some() && c.tx_id.is_none() && c.slate.is_none();
	if !advanced {
		if let Some(i) = c.tx_id {
			if e.id != i {
				v.push("tx_id");
			}
		}
		if let Some(s) = c.slate {
			if e.slate != Some(s) {
				v.push("tx_slate_id");
			}
		}
		if c.outstanding && !(!e.confirmed && (e.ty == 1 || e.ty == 2 || e.ty == 5)) {
			v.push("outstanding_only");
		}
		return v;
	}
	let q = c.q.as_ref().unwrap();
	let cancelled = e.ty == 3 || e.ty == 4;
	if q.min_id.map_or(false, |m| e.id < m) {
		v.push("min_id");
	}
	if q.max_id.map_or(false, |m| e.id > m) {
		v.push("max_id");
	}
	if q.flags[0] == Some(true) && cancelled {
		v.push("exclude_cancelled");
	}
	if q.flags[1] == Some(true) && e.confirmed {
		v.push("include_outstanding_only");
	}
	if q.flags[2] == Some(true) && !e.confirmed {
		v.push("include_confirmed_only");
	}
	if q.flags[3] == Some(true) && !(e.ty == 2 || e.ty == 4) {
		v.push("include_sent_only");
	}
	if q.flags[4] == Some(true) && !(e.ty == 1 || e.ty == 3) {
		v.push("include_received_only");
	}
	if q.flags[5] == Some(true) && e.ty != 0 {
		v.push("include_coinbase_only");
	}
	if q.flags[6] == Some(true) && e.ty != 5 {
		v.push("include_reverted_only");
	}
	if q.min_amount.map_or(false, |m| net_amount(e) < m as i128) {
		v.push("min_amount");
	}
	if q.max_amount.map_or(false, |m| net_amount(e) > m as i128) {
		v.push("max_amount");
	}
	if q.min_cts.map_or(false, |m| e.cts < m) {
		v.push("min_creation_timestamp");
	}
	if q.max_cts.map_or(false, |m| e.cts > m) {
		v.push("max_creation_timestamp");
	}
	// entries that carry no confirmation time are not constrained by the bounds on it
	if let (Some(m), Some(t)) = (q.min_conf, e.conf) {
		if t < m {
			v.push("min_confirmed_timestamp");
		}
	}
	if let (Some(m), Some(t)) = (q.max_conf, e.conf) {
		if t > m {
			v.push("max_confirmed_timestamp");
		}
	}
	v
}

/// sort key as (class, value): class orders "no confirmation time" before any time
fn sort_key(e: &E, f: u8) -> (i8, i128) {
	match f {
		0 => (0, e.id as i128),
		1 => (0, e.cts as i128),
		2 => match e.conf {
			None => (-1, 0),
			Some(t) => (0, t as i128),
		},
		3 => (0, net_amount(e)),
		4 => (0, e.credited as i128),
		_ => (0, e.debited as i128),
	}
}

fn oracle(log: &[E], c: &Call, res: &Result<Result<Vec<E>, u64>, String>) -> Vec<String> {
	let mut f = vec![];
	let got = match res {
		Err(m) => return vec![format!("panic: {}", m)],
		Ok(Err(cl)) => return vec![format!("error class {} (a query never fails)", cl)],
		Ok(Ok(g)) => g,
	};
	let stored: BTreeMap<u64, &E> = log.iter().map(|e| (key(e), e)).collect();
	let matching: BTreeSet<u64> = log
		.iter()
		.filter(|e| violated(e, c).is_empty())
		.map(key)
		.collect();
	let mut seen = BTreeSet::new();
	for g in got {
		let k = key(g);
		if !seen.insert(k) {
			f.push(format!("entry ({},{}) returned twice", g.parent, g.id));
		}
		match stored.get(&k) {
			None => f.push(format!("returned entry ({},{}) is not in the log", g.parent, g.id)),
			Some(s) => {
				if *s != g {
					f.push(format!("returned entry ({},{}) differs from the stored one", g.parent, g.id));
				}
				let v = violated(s, c);
				if !v.is_empty() {
					f.push(format!("returned entry ({},{}) violates {:?}", g.parent, g.id, v));
				}
			}
		}
	}
	let advanced = c.q.is_some() && c.tx_id.is_none() && c.slate.is_none();
	let limit = if advanced { c.q.as_ref().unwrap().limit } else { None };
	let want_len = match limit {
		Some(l) => matching.len().min(l as usize),
		None => matching.len(),
	};
	if got.len() != want_len {
		f.push(format!("{} entries returned, {} expected", got.len(), want_len));
	}
	if limit.is_none() {
		for k in matching.difference(&seen) {
			let e = stored[k];
			f.push(format!("entry ({},{}) satisfies every supplied criterion but is missing", e.parent, e.id));
		}
	}
	if advanced {
		let q = c.q.as_ref().unwrap();
		let fld = q.sort_field.unwrap_or(0);
		let desc = q.sort_order == Some(1);
		for w in got.windows(2) {
			let (a, b) = (sort_key(&w[0], fld), sort_key(&w[1], fld));
			if (!desc && a > b) || (desc && a < b) {
				f.push(format!("not sorted by field {} {}", fld, if desc { "desc" } else { "asc" }));
				break;
			}
		}
		// truncation keeps a leading segment: nothing left out may sort strictly before the last kept
		if let (Some(_), Some(last)) = (limit, got.last()) {
			let lk = sort_key(last, fld);
			for k in matching.difference(&seen) {
				let ek = sort_key(stored[k], fld);
				if (!desc && ek < lk) || (desc && ek > lk) {
					f.push(format!("limit dropped entry {} that sorts before a returned one", k));
					break;
				}
			}
		}
	}
	f
}

// ------------------------------------------------------------------ running the implementation

struct Wal {
	scen: Scen,
	n: usize,
}

/// Fresh wallet holding exactly `log`; returns the keys in backend iteration order.
fn load_log(w: &mut Wal, log: &[E], active: u32) -> Vec<u64> {
	// close and remove the previous wallet
	if let Some(old) = w.scen.wallets.pop() {
		{
			let mut l = old.inst.lock();
			let lc = l.lc_provider().unwrap();
			let _ = lc.close_wallet(None);
		}
		let _ = std::fs::remove_dir_all(format!("{}/{}", w.scen.dir, old.name));
	}
	w.n += 1;
	let name = format!("w{}", w.n);
	let i = w.scen.add_wallet(&name, None, false);
	w.scen.with(i, |backend, mask| {
		{
			let mut batch = backend.batch(mask).unwrap();
			for e in log {
				batch.save_tx_log_entry(to_entry(e), &acct_id(e.parent)).unwrap();
			}
			batch.commit().unwrap();
		}
		backend.set_parent_key_id(acct_id(active));
		backend.tx_log_iter().map(|t| key(&of_entry(&t))).collect()
	})
}

fn run_call(w: &Wal, c: &Call) -> Result<Result<Vec<E>, u64>, String> {
	let args = c.q.as_ref().map(to_args);
	let slate = c.slate.map(slate_uuid);
	let wal = &w.scen.wallets[0];
	guarded(|| {
		let r = if c.via_owner {
			owner::retrieve_txs(wal.inst.clone(), wal.mask.as_ref(), &None, false, c.tx_id, slate, args)
				.map(|x| x.1)
		} else {
			let p = c.parent.map(acct_id);
			w.scen.with(0, |backend, _| {
				updater::retrieve_txs(backend, c.tx_id, slate, args, p.as_ref(), c.outstanding)
			})
		};
		match r {
			Ok(v) => Ok(v.iter().map(of_entry).collect()),
			Err(e) => Err(err_class(&e)),
		}
	})
}

// ------------------------------------------------------------------ JSON

fn e_json(e: &E) -> Value {
	json!([e.parent, e.id, e.ty, e.confirmed, e.credited.to_string(), e.debited.to_string(), e.cts, e.conf, e.slate])
}
fn num(x: &Value) -> Option<i128> {
	if x.is_null() {
		None
	} else {
		Some(x.as_str().map(|s| s.parse().unwrap()).or(x.as_i64().map(|v| v as i128)).or(x.as_u64().map(|v| v as i128)).unwrap())
	}
}
fn e_from(v: &Value) -> E {
	E {
		parent: num(&v[0]).unwrap() as u32,
		id: num(&v[1]).unwrap() as u32,
		ty: num(&v[2]).unwrap() as u8,
		confirmed: v[3].as_bool().unwrap(),
		credited: num(&v[4]).unwrap() as u64,
		debited: num(&v[5]).unwrap() as u64,
		cts: num(&v[6]).unwrap() as i64,
		conf: num(&v[7]).map(|x| x as i64),
		slate: num(&v[8]).map(|x| x as u32),
	}
}
fn q_json(q: &Q) -> Value {
	json!([q.min_id, q.max_id, q.limit, q.flags[0], q.flags[1], q.flags[2], q.flags[3], q.flags[4], q.flags[5],
		q.flags[6], q.min_amount.map(|x| x.to_string()), q.max_amount.map(|x| x.to_string()),
		q.min_cts, q.max_cts, q.min_conf, q.max_conf, q.sort_field, q.sort_order])
}
fn q_from(v: &Value) -> Q {
	let mut flags = [None; 7];
	for i in 0..7 {
		flags[i] = v[3 + i].as_bool();
	}
	Q {
		min_id: num(&v[0]).map(|x| x as u32),
		max_id: num(&v[1]).map(|x| x as u32),
		limit: num(&v[2]).map(|x| x as u32),
		flags,
		min_amount: num(&v[10]).map(|x| x as u64),
		max_amount: num(&v[11]).map(|x| x as u64),
		min_cts: num(&v[12]).map(|x| x as i64),
		max_cts: num(&v[13]).map(|x| x as i64),
		min_conf: num(&v[14]).map(|x| x as i64),
		max_conf: num(&v[15]).map(|x| x as i64),
		sort_field: num(&v[16]).map(|x| x as u8),
		sort_order: num(&v[17]).map(|x| x as u8),
	}
}
fn call_json(c: &Call) -> Value {
	json!({"via_owner": c.via_owner, "tx_id": c.tx_id, "slate": c.slate, "parent": c.parent,
		"outstanding": c.outstanding, "q": c.q.as_ref().map(q_json)})
}
fn call_from(v: &Value) -> Call {
	Call {
		via_owner: v["via_owner"].as_bool().unwrap(),
		tx_id: num(&v["tx_id"]).map(|x| x as u32),
		slate: num(&v["slate"]).map(|x| x as u32),
		parent: num(&v["parent"]).map(|x| x as u32),
		outstanding: v["outstanding"].as_bool().unwrap(),
		q: if v["q"].is_null() { None } else { Some(q_from(&v["q"])) },
	}
}

// ------------------------------------------------------------------ generators

const AMOUNTS: [u64; 10] = [0, 1, 2, 2, 5, 10, 60_000_000_000, 1 << 63, u64::MAX - 1, u64::MAX];

fn gen_log(p: &mut Prng, big: bool) -> (Vec<E>, u32) {
	let active = p.below(3) as u32;
	let n = match p.below(20) {
		0 => 0,
		1 => 1,
		2 => 2,
		3..=10 => p.range(3, 8),
		_ => {
			if big && p.chance(1, 3) {
				p.range(30, 120)
			} else {
				p.range(9, 16)
			}
		}
	};
	let id_span = if n > 20 { 60 } else { 9 };
	let t_span = if p.coin() { 6 } else { 14 }; // few distinct instants: many equal keys
	let mut used = BTreeSet::new();
	let mut log = vec![];
	for _ in 0..n {
		let parent = if p.chance(7, 10) { active } else { p.below(3) as u32 };
		let id = p.below(id_span) as u32;
		if !used.insert((parent, id)) {
			continue;
		}
		let ty = *p.pick(&[0u8, 0, 1, 1, 1, 2, 2, 2, 3, 4, 5]);
		let confirmed = p.chance(3, 5);
		let cts = p.below(t_span) as i64 + 2;
		let conf = if p.chance(if confirmed { 9 } else { 2 }, 10) {
			Some(p.below(t_span) as i64 + 2)
		} else {
			None
		};
		let small = p.chance(3, 4);
		let am = |p: &mut Prng| if small { *p.pick(&AMOUNTS[0..7]) } else { *p.pick(&AMOUNTS) };
		let (credited, debited) = (am(p), am(p));
		let slate = if p.chance(2, 3) { Some(p.range(1, 4) as u32) } else { None };
		log.push(E { parent, id, ty, confirmed, credited, debited, cts, conf, slate });
	}
	(log, active)
}

/// boundary value around something that occurs in the log
fn near<T: Copy>(p: &mut Prng, vals: &[T], fallback: T, shift: impl Fn(T, i64) -> T) -> T {
	let b = if vals.is_empty() { fallback } else { *p.pick(vals) };
	shift(b, [0i64, 0, 0, -1, 1][p.below(5) as usize])
}

/// set field `k` (0..18) of `q` to a value that discriminates on `log`
fn set_field(p: &mut Prng, q: &mut Q, k: usize, log: &[E]) {
	let ids: Vec<u32> = log.iter().map(|e| e.id).collect();
	let nets: Vec<u64> = log.iter().map(|e| net_amount(e)).filter(|a| *a >= 0 && *a <= u64::MAX as i128).map(|a| a as u64).collect();
	let cts: Vec<i64> = log.iter().map(|e| e.cts).collect();
	let confs: Vec<i64> = log.iter().filter_map(|e| e.conf).collect();
	let s32 = |b: u32, d: i64| (b as i64 + d).max(0).min(u32::MAX as i64) as u32;
	let s64 = |b: u64, d: i64| if d < 0 { b.saturating_sub(1) } else { b.saturating_add(d as u64) };
	let si = |b: i64, d: i64| b + d;
	match k {
		0 => q.min_id = Some(near(p, &ids, 0, s32)),
		1 => q.max_id = Some(near(p, &ids, 0, s32)),
		2 => {
			q.limit = Some(match p.below(8) {
				0 => 0,
				1 => 1,
				2 => 2,
				3 => log.len() as u32,
				4 => (log.len() as u32).saturating_sub(1),
				5 => u32::MAX,
				_ => p.below(log.len() as u64 + 2) as u32,
			})
		}
		3..=9 => q.flags[k - 3] = Some(p.chance(4, 5)),
		10 => q.min_amount = Some(near(p, &nets, 0, s64)),
		11 => q.max_amount = Some(near(p, &nets, 0, s64)),
		12 => q.min_cts = Some(near(p, &cts, 3, si)),
		13 => q.max_cts = Some(near(p, &cts, 3, si)),
		14 => q.min_conf = Some(near(p, &confs, 3, si)),
		15 => q.max_conf = Some(near(p, &confs, 3, si)),
		16 => q.sort_field = Some(p.below(6) as u8),
		_ => q.sort_order = Some(p.below(2) as u8),
	}
}

fn gen_calls(p: &mut Prng, log: &[E], active: u32, per_log: u64) -> Vec<Call> {
	let mut calls = vec![];
	let adv = |p: &mut Prng, q: Q| -> Call {
		// most advanced queries go through the owner API (active account); some straight to
		// the updater with another / no account
		if p.chance(3, 4) {
			Call { via_owner: true, tx_id: None, slate: None, parent: Some(active), outstanding: false, q: Some(q) }
		} else {
			let parent = match p.below(4) {
				0 => None,
				1 => Some(active),
				_ => Some(p.below(3) as u32),
			};
			Call { via_owner: false, tx_id: None, slate: None, parent, outstanding: p.chance(1, 5), q: Some(q) }
		}
	};
	// the empty query and the documented default
	calls.push(adv(p, Q::default()));
	let mut dq = Q::default();
	dq.flags = [Some(false); 7];
	dq.sort_field = Some(0);
	dq.sort_order = Some(0);
	calls.push(adv(p, dq));
	// every single field
	for k in 0..18 {
		let reps = if (3..=9).contains(&k) { 1 } else { 2 };
		for _ in 0..reps {
			let mut q = Q::default();
			set_field(p, &mut q, k, log);
			calls.push(adv(p, q));
		}
	}
	// every sort field in both directions
	for f in 0..6u8 {
		for o in 0..2u8 {
			let mut q = Q::default();
			q.sort_field = Some(f);
			q.sort_order = Some(o);
			if p.coin() {
				set_field(p, &mut q, 2, log);
			}
			calls.push(adv(p, q));
		}
	}
	// every pair of fields
	for a in 0..18 {
		for b in (a + 1)..18 {
			let mut q = Q::default();
			set_field(p, &mut q, a, log);
			set_field(p, &mut q, b, log);
			calls.push(adv(p, q));
		}
	}
	// legacy look-ups: by id, by slate id, both, outstanding-only, with and without account
	let leg = |p: &mut Prng, tx_id: Option<u32>, slate: Option<u32>, with_q: bool, log: &[E]| -> Call {
		let q = if with_q {
			let mut q = Q::default();
			for _ in 0..2 {
				let k = p.below(18) as usize;
				set_field(p, &mut q, k, log);
			}
			Some(q)
		} else {
			None
		};
		if p.chance(1, 2) {
			Call { via_owner: true, tx_id, slate, parent: Some(active), outstanding: false, q }
		} else {
			let parent = match p.below(4) {
				0 => None,
				1 => Some(p.below(3) as u32),
				_ => Some(active),
			};
			Call { via_owner: false, tx_id, slate, parent, outstanding: p.chance(1, 4), q }
		}
	};
	for i in 0..10u32 {
		calls.push(leg(p, Some(i), None, i % 3 == 0, log));
	}
	for s in 0..6u32 {
		calls.push(leg(p, None, Some(s), s % 2 == 0, log));
	}
	for _ in 0..6 {
		let e = if log.is_empty() { None } else { Some(p.pick(log).clone()) };
		let (i, s) = match e {
			Some(e) => (e.id, e.slate.unwrap_or(1)),
			None => (0, 1),
		};
		let s = if p.chance(1, 4) { s % 4 + 1 } else { s };
		let wq = p.coin();
		calls.push(leg(p, Some(i), Some(s), wq, log));
	}
	for _ in 0..4 {
		let mut c = leg(p, None, None, false, log);
		c.outstanding = !c.via_owner && p.coin();
		calls.push(c);
	}
	// random combinations
	while (calls.len() as u64) < per_log {
		let mut q = Q::default();
		let dens = p.range(1, 6);
		for k in 0..18 {
			if p.below(18) < dens {
				set_field(p, &mut q, k, log);
			}
		}
		calls.push(adv(p, q));
	}
	calls
}

fn emit(out: &mut Out, id: u64, log_id: u64, log: &[E], active: u32, dblog: &[u64], c: &Call, w: &Wal) {
	let res = run_call(w, c);
	let fails = oracle(log, c, &res);
	// which supplied criteria decided something: excluded an entry all others would keep
	let mut decisive = BTreeSet::new();
	for e in log {
		let v = violated(e, c);
		if v.len() == 1 {
			decisive.insert(v[0]);
		}
	}
	if let (Some(q), Ok(Ok(g))) = (c.q.as_ref(), &res) {
		let n_match = log.iter().filter(|e| violated(e, c).is_empty()).count();
		if c.tx_id.is_none() && c.slate.is_none() && q.limit.map_or(false, |l| (l as usize) < n_match) && !g.is_empty() {
			decisive.insert("limit");
		}
	}
	let enc: Vec<String> = match &res {
		Err(_) => vec!["2".into()],
		Ok(Err(cl)) => vec!["1".into(), cl.to_string()],
		Ok(Ok(v)) => std::iter::once("0".to_string()).chain(v.iter().map(|e| key(e).to_string())).collect(),
	};
	out.line(&json!({"id": id, "log_id": log_id,
		"case": {"log": log.iter().map(e_json).collect::<Vec<_>>(), "active": active, "call": call_json(c)},
		"dblog": dblog.iter().map(|k| k.to_string()).collect::<Vec<_>>(),
		"impl": enc, "oracle": fails, "decisive": decisive.into_iter().collect::<Vec<_>>()}));
}

fn main() {
	quiet_panics();
	let out_path = arg("out").expect("--out");
	let mut out = Out::create(&out_path);
	let dir = format!("/tmp/vh_c19_{}_{}", std::process::id(), arg("tag").unwrap_or_default());
	let mut w = Wal { scen: Scen::new(&dir), n: 0 };
	if let Some(replay) = arg("replay") {
		let v: Value = serde_json::from_str(&std::fs::read_to_string(&replay).unwrap()).unwrap();
		let cases: Vec<Value> = if v.get("cases").is_some() {
			v["cases"].as_array().unwrap().clone()
		} else {
			vec![v["case"].clone()]
		};
		let mut prev: Option<(Vec<E>, u32)> = None;
		let mut dblog = vec![];
		let mut log_id = 0;
		for (i, cj) in cases.iter().enumerate() {
			let log: Vec<E> = cj["log"].as_array().unwrap().iter().map(e_from).collect();
			let active = num(&cj["active"]).unwrap() as u32;
			if prev.as_ref() != Some(&(log.clone(), active)) {
				dblog = load_log(&mut w, &log, active);
				log_id += 1;
				prev = Some((log.clone(), active));
			}
			emit(&mut out, i as u64, log_id, &log, active, &dblog, &call_from(&cj["call"]), &w);
		}
	} else {
		let logs = arg_u64("logs", 20);
		let per_log = arg_u64("per-log", 260);
		let big = arg_u64("big", 0) == 1;
		let mut p = Prng::new(seed_from_env());
		let mut id = 0;
		for log_id in 0..logs {
			let (log, active) = gen_log(&mut p, big);
			let dblog = load_log(&mut w, &log, active);
			for c in gen_calls(&mut p, &log, active, per_log) {
				emit(&mut out, id, log_id, &log, active, &dblog, &c, &w);
				id += 1;
			}
		}
	}
	out.finish();
	drop(w);
	let _ = std::fs::remove_dir_all(&dir);
}
