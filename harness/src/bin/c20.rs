//! C20 — schedule explorer for the background refresh (DESIGN.md section 6 / A.7).
//!
//! A cooperative scheduler drives the REAL `owner::update_wallet_state` / `owner::scan` /
//! `owner::cancel_tx` (multi-section: one `wallet_lock!` per critical section) together with
//! single-section owner/foreign operations and node events on real LMDB wallets over a real
//! in-process chain. Hook H2 (`verif_hooks::set_before_lock`) parks the calling thread
//! immediately before every `wallet_lock!` acquisition until the controller grants it the
//! next step, so a schedule is a sequence of logical thread ids and every run is
//! deterministic. One *step* of a thread = one critical section plus the code that follows
//! it up to the next acquisition (node calls outside the lock included).
//!
//! For each scenario the explorer enumerates interleavings (DFS with re-execution from a
//! copied base directory; optional preemption bound and sampling), and prints one JSON line
//! per run: schedule, steps per thread, result class of every operation, canonical final
//! snapshot of the wallet under test. `checks/c20.py` compares every final (snapshot,
//! operation results) with the set reached by the serial orders and with the prediction of
//! the Coq model (coq/theories/Sched.v) for the same schedule.
#[macro_use]
extern crate lazy_static;

use serde_json::{json, Value};
use std::cell::Cell;
use std::sync::{Arc, Condvar, Mutex as StdMutex};
use std::time::{Duration, Instant};
use vharness::impls::DefaultWalletImpl;
use vharness::keychain::ExtKeychain;
use vharness::libwallet::api_impl::{foreign, owner};
use vharness::libwallet::{
	InitTxArgs, Slate, SlatepackAddress, TxLogEntry, WalletInitStatus, WalletInst,
};
use vharness::node::{ChainNode, NodeCtl};
use vharness::scen::*;
use vharness::util::{Mutex, ZeroingString};
use vharness::*;
use grin_core::core::hash::Hashed;

// ------------------------------------------------------------------ cooperative scheduler

const NONE: usize = usize::MAX;
thread_local! { static TID: Cell<usize> = Cell::new(NONE); }

struct GState {
	granted: usize,
	parked: Vec<bool>,
	done: Vec<bool>,
	steps: Vec<u32>,
}
struct Gate {
	m: StdMutex<GState>,
	cv: Condvar,
}
lazy_static! {
	static ref GATE: Gate = Gate {
		m: StdMutex::new(GState {
			granted: NONE,
			parked: vec![],
			done: vec![],
			steps: vec![],
		}),
		cv: Condvar::new(),
	};
}

/// Called (through hook H2) immediately before every `wallet_lock!` acquisition, and by
/// the single-section operations / node events of this harness before they start.
fn gate() {
	let tid = TID.with(|t| t.get());
	if tid == NONE {
		return; // setup code / controller: not scheduled
	}
	let mut st = GATE.m.lock().unwrap();
	st.parked[tid] = true;
	if st.granted == tid {
		st.granted = NONE;
	}
	GATE.cv.notify_all();
	while st.granted != tid {
		st = GATE.cv.wait(st).unwrap();
	}
	st.parked[tid] = false;
	st.steps[tid] += 1;
}

fn thread_done(tid: usize) {
	let mut st = GATE.m.lock().unwrap();
	st.done[tid] = true;
	if st.granted == tid {
		st.granted = NONE;
	}
	GATE.cv.notify_all();
}

fn gate_reset(n: usize) {
	let mut st = GATE.m.lock().unwrap();
	st.granted = NONE;
	st.parked = vec![false; n];
	st.done = vec![false; n];
	st.steps = vec![0; n];
}

/// Controller side: wait until thread `tid` is parked at a gate or finished.
/// Returns false when the watchdog fires (a real deadlock or a hang).
fn wait_quiescent(tid: usize, watchdog: Duration) -> bool {
	let t0 = Instant::now();
	let mut st = GATE.m.lock().unwrap();
	loop {
		if st.granted == NONE && (st.parked[tid] || st.done[tid]) {
			return true;
		}
		let el = t0.elapsed();
		if el >= watchdog {
			return false;
		}
		let (g, _) = GATE.cv.wait_timeout(st, watchdog - el).unwrap();
		st = g;
	}
}

fn grant(tid: usize) {
	let mut st = GATE.m.lock().unwrap();
	st.granted = tid;
	GATE.cv.notify_all();
}

// ------------------------------------------------------------------ scenarios

/// Slate exchange state of one payment (shared between the logical threads).
#[derive(Default, Clone)]
struct Slot {
	slate0: Option<Slate>, // after init_send
	slate1: Option<Slate>, // after receive
	fin: Option<Slate>,    // after finalize
	posted: bool,
	proof: bool,
}

struct Ctx {
	scen: Scen,
	slots: Vec<StdMutex<Slot>>,
	/// index of the wallet under test
	w: usize,
	/// counterparty wallet and miner wallet
	cp: usize,
	miner: usize,
}

const W: usize = 0;
const CP: usize = 1;
const MINER: usize = 2;
const NAMES: [&str; 3] = ["w", "cp", "miner"];

fn new_inst(
	node: &Arc<NodeCtl>,
	dir: &str,
	name: &str,
) -> Box<dyn WalletInst<'static, LC, ChainNode, ExtKeychain>> {
	let mut wallet = Box::new(DefaultWalletImpl::<'static, ChainNode>::new(node.client()).unwrap())
		as Box<dyn WalletInst<'static, LC, ChainNode, ExtKeychain>>;
	let lc = wallet.lc_provider().unwrap();
	let _ = lc.set_top_level_directory(&format!("{}/{}", dir, name));
	wallet
}

/// Open the three wallets of an existing scenario directory on the live node (the chain is
/// kept open for the whole process and rewound to the base tip before every run: grin's
/// Chain::init cannot reopen an AutomatedTesting chain directory).
fn open_scen(dir: &str, node: Arc<NodeCtl>) -> Scen {
	init_thread();
	let mut wallets = vec![];
	for name in NAMES.iter() {
		let mut wallet = new_inst(&node, dir, name);
		let lc = wallet.lc_provider().unwrap();
		let m = lc
			.open_wallet(None, ZeroingString::from(""), false, false)
			.unwrap();
		wallets.push(vharness::scen::W {
			name: name.to_string(),
			inst: Arc::new(Mutex::new(wallet)),
			mask: m,
		});
	}
	Scen {
		dir: dir.to_owned(),
		node,
		wallets,
	}
}

fn close_scen(s: Scen) {
	for w in s.wallets.iter() {
		let mut l = w.inst.lock();
		let lc = l.lc_provider().unwrap();
		let _ = lc.close_wallet(None);
	}
	drop(s);
}

fn copy_dir(from: &std::path::Path, to: &std::path::Path) {
	std::fs::create_dir_all(to).unwrap();
	for e in std::fs::read_dir(from).unwrap() {
		let e = e.unwrap();
		let p = e.path();
		if e.file_name() == ".grin" {
			continue;
		}
		let t = to.join(e.file_name());
		if p.is_dir() {
			copy_dir(&p, &t);
		} else {
			std::fs::copy(&p, &t).unwrap();
		}
	}
}

lazy_static! {
	static ref SALT: std::sync::atomic::AtomicI64 = std::sync::atomic::AtomicI64::new(0);
}

/// Mine one block to wallet `i` with the pool's transactions. The timestamp carries a
/// per-run salt so that a block mined after a rewind differs from the one mined on the
/// same parent in an earlier run (an identical block would be rejected as already known).
fn mine_pool_salted(s: &Scen, i: usize) -> Result<usize, libwallet::Error> {
	use vharness::libwallet::BlockFees;
	let txs: Vec<grin_core::core::Transaction> = s.node.pool.lock().drain(..).collect();
	let prev = s.node.chain.head_header().unwrap();
	let fees = txs.iter().map(|t| t.fee()).sum();
	let bf = BlockFees {
		fees,
		key_id: None,
		height: prev.height + 1,
	};
	let cb = s.with(i, |b, m| foreign::build_coinbase(b, m, &bf, false))?;
	let mut block = s.node.build_block(&prev, &txs, (cb.output, cb.kernel));
	let salt = SALT.load(std::sync::atomic::Ordering::Relaxed);
	if salt != 0 {
		use grin_core::{consensus, global, pow};
		block.header.timestamp = prev.timestamp + chrono::Duration::seconds(60 + salt);
		let next = consensus::next_difficulty(prev.height + 1, s.node.chain.difficulty_iter().unwrap());
		block.header.pow.nonce = 0;
		pow::pow_size(&mut block.header, next.difficulty, global::proofsize(), global::min_edge_bits()).unwrap();
	}
	s.node
		.process(block)
		.map_err(|e| libwallet::Error::GenericError(format!("process_block: {:?}", e)))?;
	Ok(txs.len())
}

fn code_of<T>(r: Result<Result<T, libwallet::Error>, String>) -> (u64, Option<T>) {
	match r {
		Ok(Ok(v)) => (0, Some(v)),
		Ok(Err(e)) => {
			if std::env::var("C20_LOUD").is_ok() {
				eprintln!("op error: {:?}", e);
			}
			(100 + err_class(&e), None)
		}
		Err(m) => {
			if std::env::var("C20_LOUD").is_ok() {
				eprintln!("op panic: {}", m);
			}
			(200, None)
		}
	}
}

fn slatepack_address(s: &Scen, i: usize) -> SlatepackAddress {
	owner::get_slatepack_address(s.wallets[i].inst.clone(), s.wallets[i].mask.as_ref(), 0).unwrap()
}

fn refresh(s: &Scen, i: usize) -> u64 {
	let r = guarded(|| {
		owner::update_wallet_state(s.wallets[i].inst.clone(), s.wallets[i].mask.as_ref(), &None, false)
	});
	match r {
		Ok(Ok(true)) => 0,
		Ok(Ok(false)) => 50,
		Ok(Err(e)) => 100 + err_class(&e),
		Err(_) => 200,
	}
}

/// The operations a logical thread can be. Written `name` or `name:arg[:arg..]`.
fn run_op(cx: &Ctx, op: &str) -> u64 {
	let parts: Vec<&str> = op.split(':').collect();
	let argn = |k: usize| -> u64 { parts.get(k).and_then(|s| s.parse().ok()).unwrap_or(0) };
	let s = &cx.scen;
	match parts[0] {
		// ---- multi-section operations of the wallet under test (hooked acquisitions)
		"refresh" => refresh(s, cx.w),
		"scan" => {
			let del = argn(1) != 0;
			let r = guarded(|| {
				owner::scan(
					s.wallets[cx.w].inst.clone(),
					s.wallets[cx.w].mask.as_ref(),
					None,
					del,
					&None,
				)
			});
			code_of(r).0
		}
		"cancel" => {
			let id = cx.slots[argn(1) as usize].lock().unwrap().slate0.as_ref().map(|s| s.id);
			match id {
				None => {
					gate();
					99
				}
				Some(id) => {
					let r = guarded(|| {
						owner::cancel_tx(
							s.wallets[cx.w].inst.clone(),
							s.wallets[cx.w].mask.as_ref(),
							&None,
							None,
							Some(id),
						)
					});
					code_of(r).0
				}
			}
		}
		"txs" => {
			// owner::retrieve_txs with refresh (read-only apart from the refresh)
			let r = guarded(|| {
				owner::retrieve_txs(
					s.wallets[cx.w].inst.clone(),
					s.wallets[cx.w].mask.as_ref(),
					&None,
					true,
					None,
					None,
					None,
				)
			});
			code_of(r).0
		}
		// ---- single-section operations (api::Owner / api::Foreign take the mutex once)
		"init" => {
			// init:<slot>:<amount>:<aif>:<proof>:<use_all>
			gate();
			let slot = argn(1) as usize;
			let proof = argn(4) != 0;
			let addr = if proof { Some(slatepack_address_nolock(cx)) } else { None };
			let args = InitTxArgs {
				amount: argn(2),
				amount_includes_fee: Some(argn(3) != 0),
				minimum_confirmations: 1,
				max_outputs: 500,
				num_change_outputs: 1,
				selection_strategy_is_use_all: argn(5) != 0,
				payment_proof_recipient_address: addr,
				..Default::default()
			};
			let r = guarded(|| s.with(cx.w, |b, m| owner::init_send_tx(b, m, args, false)));
			let (c, v) = code_of(r);
			if let Some(sl) = v {
				let mut g = cx.slots[slot].lock().unwrap();
				g.slate0 = Some(sl);
				g.proof = proof;
			}
			c
		}
		"receive" => {
			gate();
			let slot = argn(1) as usize;
			let s0 = cx.slots[slot].lock().unwrap().slate0.clone();
			match s0 {
				None => 99,
				Some(s0) => {
					let r = guarded(|| s.with(cx.w, |b, m| foreign::receive_tx(b, m, &s0, None, false)));
					let (c, v) = code_of(r);
					if let Some(sl) = v {
						cx.slots[slot].lock().unwrap().slate1 = Some(sl);
					}
					c
				}
			}
		}
		"lock" => {
			gate();
			let slot = argn(1) as usize;
			let s1 = cx.slots[slot].lock().unwrap().slate1.clone();
			match s1 {
				None => 99,
				Some(s1) => code_of(guarded(|| s.with(cx.w, |b, m| owner::tx_lock_outputs(b, m, &s1)))).0,
			}
		}
		"finalize" => {
			gate();
			let slot = argn(1) as usize;
			let s1 = cx.slots[slot].lock().unwrap().slate1.clone();
			match s1 {
				None => 99,
				Some(s1) => {
					let r = guarded(|| s.with(cx.w, |b, m| owner::finalize_tx(b, m, &s1)));
					let (c, v) = code_of(r);
					if let Some(sl) = v {
						cx.slots[slot].lock().unwrap().fin = Some(sl);
					}
					c
				}
			}
		}
		// ---- environment: counterparty and node events (do not touch the wallet under test)
		"cpfin" => {
			// counterparty (sender) locks + finalizes the slate the wallet under test answered,
			// posts it and a block is mined
			gate();
			let slot = argn(1) as usize;
			let s1 = cx.slots[slot].lock().unwrap().slate1.clone();
			let mut c = 99;
			if let Some(s1) = s1 {
				if cx.slots[slot].lock().unwrap().fin.is_none() {
					let r = guarded(|| {
						s.with(cx.cp, |b, m| {
							owner::tx_lock_outputs(b, m, &s1)?;
							owner::finalize_tx(b, m, &s1)
						})
					});
					let (cc, v) = code_of(r);
					c = cc;
					if let Some(f) = v {
						let client = s.node.client();
						let _ = owner::post_tx(&client, f.tx_or_err().unwrap(), false);
						let mut g = cx.slots[slot].lock().unwrap();
						g.fin = Some(f);
						g.posted = true;
					}
				}
			}
			let _ = mine_pool_salted(s, cx.miner);
			c
		}
		"postmine" => {
			// post every finalized, not yet posted transaction; mine one block
			gate();
			for sl in cx.slots.iter() {
				let mut g = sl.lock().unwrap();
				if !g.posted {
					if let Some(f) = g.fin.clone() {
						let client = s.node.client();
						let _ = owner::post_tx(&client, f.tx_or_err().unwrap(), false);
						g.posted = true;
					}
				}
			}
			match mine_pool_salted(s, cx.miner) {
				Ok(_) => 0,
				Err(_) => 150,
			}
		}
		"mine" => {
			gate();
			// an empty block (pool transactions stay in the pool)
			let keep: Vec<_> = s.node.pool.lock().drain(..).collect();
			let r = mine_pool_salted(s, cx.miner);
			s.node.pool.lock().extend(keep);
			match r {
				Ok(_) => 0,
				Err(_) => 150,
			}
		}
		"down" => {
			gate();
			s.node.down.store(true, std::sync::atomic::Ordering::Relaxed);
			0
		}
		"up" => {
			gate();
			s.node.down.store(false, std::sync::atomic::Ordering::Relaxed);
			0
		}
		_ => panic!("unknown op {}", op),
	}
}

/// Slatepack address of the counterparty without going through a hooked acquisition.
fn slatepack_address_nolock(cx: &Ctx) -> SlatepackAddress {
	let save = TID.with(|t| t.replace(NONE));
	let a = slatepack_address(&cx.scen, cx.cp);
	TID.with(|t| t.set(save));
	a
}

fn is_env(op: &str) -> bool {
	let n = op.split(':').next().unwrap();
	n == "cpfin" || n == "postmine" || n == "mine" || n == "down" || n == "up"
}
fn is_multi(op: &str) -> bool {
	let n = op.split(':').next().unwrap();
	n == "refresh" || n == "scan" || n == "cancel" || n == "txs"
}

// ------------------------------------------------------------------ canonical snapshot

fn excess_label(cx: &Ctx, t: &TxLogEntry) -> Value {
	match t.kernel_excess {
		None => Value::Null,
		Some(e) => {
			for (i, sl) in cx.slots.iter().enumerate() {
				let g = sl.lock().unwrap();
				if let Some(f) = g.fin.as_ref() {
					if let Ok(tx) = f.tx_or_err() {
						if tx.kernels().iter().any(|k| k.excess == e) {
							return json!(format!("k{}", i));
						}
					}
				}
			}
			json!("x")
		}
	}
}

/// scen::snapshot + what C20 names in addition (sender signature of the payment proof,
/// which kernel the stored excess is, contexts, scanned height, init status); slate ids
/// replaced by slot numbers.
fn snapshot_ext(cx: &Ctx) -> Value {
	let ids: Vec<Option<uuid::Uuid>> = cx
		.slots
		.iter()
		.map(|s| s.lock().unwrap().slate0.as_ref().map(|s| s.id))
		.collect();
	let slot_of = |u: &Option<uuid::Uuid>| -> Value {
		match u {
			None => Value::Null,
			Some(u) => match ids.iter().position(|x| x.as_ref() == Some(u)) {
				Some(p) => json!(p),
				None => json!("?"),
			},
		}
	};
	let w = &cx.scen.wallets[cx.w];
	let mut l = w.inst.lock();
	let lc = l.lc_provider().unwrap();
	let b = lc.wallet_inst().unwrap();
	let mut snap = snapshot(&mut **b);
	let mut txs: Vec<TxLogEntry> = b.tx_log_iter().collect();
	txs.sort_by_key(|t| (key_pair(&t.parent_key_id).0, t.id));
	let arr = snap["txs"].as_array_mut().unwrap();
	for (j, t) in txs.iter().enumerate() {
		let o = arr[j].as_object_mut().unwrap();
		o.insert("slate".into(), slot_of(&t.tx_slate_id));
		o.insert(
			"proof_sender_sig".into(),
			json!(t.payment_proof.as_ref().map(|p| p.sender_signature.is_some()).unwrap_or(false)),
		);
		o.insert("excess".into(), excess_label(cx, t));
		o.insert("min_h".into(), json!(t.kernel_lookup_min_height));
	}
	let mut ctxs = vec![];
	for (i, u) in ids.iter().enumerate() {
		if let Some(u) = u {
			if b.get_private_context(w.mask.as_ref(), u.as_bytes()).is_ok() {
				ctxs.push(i);
			}
		}
	}
	let o = snap.as_object_mut().unwrap();
	o.insert("contexts".into(), json!(ctxs));
	o.insert("scanned_h".into(), json!(b.last_scanned_block().map(|x| x.height).unwrap_or(0)));
	o.insert(
		"init".into(),
		json!(match b.init_status() {
			Ok(WalletInitStatus::InitNeedsScanning) => 0,
			Ok(WalletInitStatus::InitNoScanning) => 1,
			Ok(WalletInitStatus::InitComplete) => 2,
			Err(_) => 9,
		}),
	);
	snap
}

/// What the model needs to know about the node: height, which outputs of the wallet
/// under test are unspent on chain (by child index, with height), which slot kernels are
/// on chain (with height).
fn node_view(cx: &Ctx) -> Value {
	let s = &cx.scen;
	let chain = &s.node.chain;
	let kc = {
		let w = &s.wallets[cx.w];
		let mut l = w.inst.lock();
		let lc = l.lc_provider().unwrap();
		let b = lc.wallet_inst().unwrap();
		b.keychain(w.mask.as_ref()).unwrap()
	};
	use vharness::keychain::{Keychain, SwitchCommitmentType};
	let mut utxo = vec![];
	// probe every (child index below the account's next index) x (value seen in the wallet,
	// in a slate or in a context): also finds outputs of this wallet that are on chain but
	// no longer / not yet recorded in it
	let outs: Vec<_> = s.with(cx.w, |b, _| b.iter().collect::<Vec<_>>());
	let mut values: Vec<u64> = outs.iter().map(|o| o.value).collect();
	for sl in cx.slots.iter() {
		if let Some(s0) = sl.lock().unwrap().slate0.as_ref() {
			values.push(s0.amount);
		}
	}
	if let Some(a) = ctx_view(cx).as_array() {
		for c in a {
			for ch in c["changes"].as_array().unwrap() {
				values.push(ch[1].as_str().unwrap().parse().unwrap());
			}
		}
	}
	values.sort();
	values.dedup();
	let next_child = s.with(cx.w, |b, _| {
		let p = b.parent_key_id();
		b.current_child_index(&p).unwrap_or(0)
	});
	let mut probe: Vec<(u64, u64)> = vec![];
	for ch in 0..next_child as u64 {
		for v in values.iter() {
			probe.push((ch, *v));
		}
	}
	for (ch, v) in probe {
		let id = ExtKeychain::derive_key_id(3, 0, 0, ch as u32, 0);
		let c = kc.commit(v, &id, SwitchCommitmentType::Regular).unwrap();
		if let Ok(Some(_)) = chain.get_unspent(c) {
			let hd = chain.get_header_for_output(c).unwrap();
			let cb = outs.iter().any(|o| key_pair(&o.key_id).1 == ch && o.is_coinbase);
			utxo.push(json!([ch, hd.height, v.to_string(), cb]));
		}
	}
	let mut kernels = vec![];
	for (i, sl) in cx.slots.iter().enumerate() {
		let g = sl.lock().unwrap();
		if let Some(f) = g.fin.as_ref() {
			if let Ok(tx) = f.tx_or_err() {
				for k in tx.kernels() {
					if let Ok(Some((_, h, _))) = chain.get_kernel_height(&k.excess, None, None) {
						kernels.push(json!([i, h]));
					}
				}
			}
		}
	}
	json!({"height": s.node.height(), "utxo": utxo, "kernels": kernels,
		"pool": s.node.pool.lock().len()})
}

/// The private contexts of the wallet under test, as far as the model needs them.
fn ctx_view(cx: &Ctx) -> Value {
	let w = &cx.scen.wallets[cx.w];
	let mut l = w.inst.lock();
	let lc = l.lc_provider().unwrap();
	let b = lc.wallet_inst().unwrap();
	let mut v = vec![];
	for (i, sl) in cx.slots.iter().enumerate() {
		let id = sl.lock().unwrap().slate0.as_ref().map(|s| s.id);
		if let Some(id) = id {
			if let Ok(c) = b.get_private_context(w.mask.as_ref(), id.as_bytes()) {
				let ins: Vec<Value> = c
					.get_inputs()
					.iter()
					.map(|(k, m, _)| json!([key_pair(k).1, m.is_some()]))
					.collect();
				let outs: Vec<Value> = c
					.get_outputs()
					.iter()
					.map(|(k, _, v)| json!([key_pair(k).1, v.to_string()]))
					.collect();
				v.push(json!({"slot": i, "inputs": ins, "changes": outs,
					"fee": c.fee.map(|f| f.fee().to_string()), "amount": c.amount.to_string(),
					"proof": c.payment_proof_derivation_index.is_some()}));
			}
		}
	}
	json!(v)
}

// ------------------------------------------------------------------ scenario setup

struct Scenario {
	name: &'static str,
	what: &'static str,
	nslots: usize,
	threads: Vec<&'static str>,
	setup: fn(&mut Ctx),
}

fn send_from(cx: &Ctx, from: usize, to: usize, slot: usize, amount: u64, aif: bool, proof: bool, upto: u8) {
	send_from_ttl(cx, from, to, slot, amount, aif, proof, upto, None)
}

fn send_from_ttl(
	cx: &Ctx,
	from: usize,
	to: usize,
	slot: usize,
	amount: u64,
	aif: bool,
	proof: bool,
	upto: u8,
	ttl: Option<u64>,
) {
	// upto: 0 init only, 1 +receive, 2 +lock, 3 +finalize, 4 +post (pool)
	let s = &cx.scen;
	let addr = if proof { Some(slatepack_address(s, to)) } else { None };
	let args = InitTxArgs {
		amount,
		amount_includes_fee: Some(aif),
		minimum_confirmations: 1,
		max_outputs: 500,
		num_change_outputs: 1,
		selection_strategy_is_use_all: aif,
		payment_proof_recipient_address: addr,
		ttl_blocks: ttl,
		..Default::default()
	};
	let s0 = s.with(from, |b, m| owner::init_send_tx(b, m, args, false)).unwrap();
	{
		let mut g = cx.slots[slot].lock().unwrap();
		g.slate0 = Some(s0.clone());
		g.proof = proof;
	}
	if upto < 1 {
		return;
	}
	let s1 = s.with(to, |b, m| foreign::receive_tx(b, m, &s0, None, false)).unwrap();
	cx.slots[slot].lock().unwrap().slate1 = Some(s1.clone());
	if upto < 2 {
		return;
	}
	s.with(from, |b, m| owner::tx_lock_outputs(b, m, &s1)).unwrap();
	if upto < 3 {
		return;
	}
	let f = s.with(from, |b, m| owner::finalize_tx(b, m, &s1)).unwrap();
	cx.slots[slot].lock().unwrap().fin = Some(f.clone());
	if upto < 4 {
		return;
	}
	let client = s.node.client();
	owner::post_tx(&client, f.tx_or_err().unwrap(), false).unwrap();
	cx.slots[slot].lock().unwrap().posted = true;
}

/// wallet under test gets `n` coinbases (heights 1..n), then the miner mines until all mature
fn fund(cx: &Ctx, who: usize, n: usize) {
	cx.scen.mine(who, n);
}
fn settle(cx: &Ctx, blocks: usize) {
	cx.scen.mine(cx.miner, blocks);
	for i in 0..3 {
		assert_eq!(refresh(&cx.scen, i), 0);
	}
}

const REWARD: u64 = 60_000_000_000;

/// The wallet under test receives slot 0, cancels it, and the counterparty nevertheless
/// finalizes, posts and gets it mined: an output of this wallet is on chain but not in it.
fn missing_output_setup(cx: &mut Ctx) {
	fund(cx, CP, 3);
	settle(cx, 4);
	send_from(cx, CP, W, 0, 5_000_000_000, false, false, 1);
	let id = cx.slots[0].lock().unwrap().slate0.as_ref().unwrap().id;
	owner::cancel_tx(cx.scen.wallets[W].inst.clone(), None, &None, None, Some(id)).unwrap();
	let s1 = cx.slots[0].lock().unwrap().slate1.clone().unwrap();
	cx.scen.with(CP, |b, m| owner::tx_lock_outputs(b, m, &s1)).unwrap();
	let f = cx.scen.with(CP, |b, m| owner::finalize_tx(b, m, &s1)).unwrap();
	let client = cx.scen.node.client();
	owner::post_tx(&client, f.tx_or_err().unwrap(), false).unwrap();
	{
		let mut g = cx.slots[0].lock().unwrap();
		g.fin = Some(f);
		g.posted = true;
	}
	cx.scen.mine_pool(MINER).unwrap();
	assert_eq!(refresh(&cx.scen, CP), 0);
}

/// The wallet under test is lost and restored from its recovery phrase: a new, empty database
/// (next key index 0) while the chain holds its earlier outputs; two payments wait to be received.
fn restored_setup(cx: &mut Ctx) {
	// (one output on chain: the index the scan restores is 1, two receives take it to 2)
	fund(cx, W, 1);
	fund(cx, CP, 3);
	settle(cx, 4);
	let phrase: String = {
		let mut l = cx.scen.wallets[W].inst.lock();
		let lc = l.lc_provider().unwrap();
		let p = (&*lc.get_mnemonic(None, ZeroingString::from("")).unwrap()).to_owned();
		let _ = lc.close_wallet(None);
		p
	};
	std::fs::remove_dir_all(format!("{}/{}", cx.scen.dir, NAMES[W])).unwrap();
	let mut wallet = new_inst(&cx.scen.node, &cx.scen.dir, NAMES[W]);
	let m = {
		let lc = wallet.lc_provider().unwrap();
		lc.create_wallet(None, Some(ZeroingString::from(phrase.as_str())), 32, ZeroingString::from(""), false)
			.unwrap();
		lc.open_wallet(None, ZeroingString::from(""), false, false).unwrap()
	};
	cx.scen.wallets[W] = vharness::scen::W {
		name: NAMES[W].to_string(),
		inst: Arc::new(Mutex::new(wallet)),
		mask: m,
	};
	send_from(cx, CP, W, 0, 3_000_000_000, false, false, 0);
	send_from(cx, CP, W, 1, 2_000_000_000, false, false, 0);
}

fn scenarios() -> Vec<Scenario> {
	vec![
		Scenario {
			name: "restored_scan_receive2",
			what: "wallet restored from its phrase (empty database, outputs on chain beyond its key index); scan || receive || receive",
			nslots: 2,
			threads: vec!["scan:0", "receive:0", "receive:1"],
			setup: restored_setup,
		},
		Scenario {
			name: "send_nochange_finalize",
			what: "sender, no change output, payment proof; locked in setup; refresh || finalize || post+mine",
			nslots: 1,
			threads: vec!["refresh", "finalize:0", "postmine"],
			setup: |cx| {
				fund(cx, W, 1);
				settle(cx, 4);
				send_from(cx, W, CP, 0, REWARD, true, true, 2);
			},
		},
		Scenario {
			name: "send_change_finalize",
			what: "sender with change output, payment proof; refresh || lock || finalize",
			nslots: 1,
			threads: vec!["refresh", "lock:0", "finalize:0"],
			setup: |cx| {
				fund(cx, W, 2);
				settle(cx, 4);
				send_from(cx, W, CP, 0, 7_000_000_000, false, true, 1);
			},
		},
		Scenario {
			name: "send_nochange_cancel",
			what: "sender, no change, finalized in setup; refresh || cancel_tx || post+mine",
			nslots: 1,
			threads: vec!["refresh", "cancel:0", "postmine"],
			setup: |cx| {
				fund(cx, W, 1);
				settle(cx, 4);
				send_from(cx, W, CP, 0, REWARD, true, false, 3);
			},
		},
		Scenario {
			name: "recv_cpfin",
			what: "receiver; refresh || receive || counterparty finalizes+posts+block",
			nslots: 1,
			threads: vec!["refresh", "receive:0", "cpfin:0"],
			setup: |cx| {
				fund(cx, CP, 2);
				settle(cx, 4);
				send_from(cx, CP, W, 0, 5_000_000_000, false, false, 0);
			},
		},
		Scenario {
			name: "recv_cancel",
			what: "receiver, received in setup; refresh || cancel_tx || counterparty finalizes+posts+block",
			nslots: 1,
			threads: vec!["refresh", "cancel:0", "cpfin:0"],
			setup: |cx| {
				fund(cx, CP, 2);
				settle(cx, 4);
				send_from(cx, CP, W, 0, 5_000_000_000, false, false, 1);
			},
		},
		Scenario {
			name: "init_lock",
			what: "sender; refresh || init_send || block mined",
			nslots: 1,
			threads: vec!["refresh", "init:0:7000000000:0:0:0", "mine"],
			setup: |cx| {
				fund(cx, W, 2);
				settle(cx, 3);
			},
		},
		Scenario {
			name: "scan_restore_receive",
			what: "receiver whose cancelled receive got mined (missing output); scan(delete_unconfirmed) || receive",
			nslots: 2,
			threads: vec!["scan:1", "receive:1", "mine"],
			setup: |cx| {
				missing_output_setup(cx);
				send_from(cx, CP, W, 1, 3_000_000_000, false, false, 0);
			},
		},
		Scenario {
			name: "ttl_expire",
			what: "sender, locked in setup, TTL one block ahead; refresh (expires it) || finalize || block mined",
			nslots: 1,
			threads: vec!["refresh", "finalize:0", "mine"],
			setup: |cx| {
				fund(cx, W, 2);
				settle(cx, 4);
				send_from_ttl(cx, W, CP, 0, 7_000_000_000, false, false, 2, Some(1));
			},
		},
		Scenario {
			name: "restore_two_refresh",
			what: "an output of the wallet is on chain but not in it; refresh || retrieve_txs(refresh) || block mined",
			nslots: 1,
			threads: vec!["refresh", "txs", "mine"],
			setup: |cx| {
				missing_output_setup(cx);
			},
		},
		Scenario {
			name: "scan_cancel",
			what: "receiver, received in setup; scan || cancel_tx || counterparty finalizes+posts+block",
			nslots: 1,
			threads: vec!["scan:0", "cancel:0", "cpfin:0"],
			setup: |cx| {
				fund(cx, CP, 2);
				settle(cx, 4);
				send_from(cx, CP, W, 0, 5_000_000_000, false, false, 1);
			},
		},
		Scenario {
			name: "send3",
			what: "sender with change and payment proof; refresh || lock || finalize || post+mine",
			nslots: 1,
			threads: vec!["refresh", "lock:0", "finalize:0", "postmine"],
			setup: |cx| {
				fund(cx, W, 2);
				settle(cx, 4);
				send_from(cx, W, CP, 0, 7_000_000_000, false, true, 1);
			},
		},
		Scenario {
			name: "down",
			what: "sender, finalized+posted+mined; refresh || node goes down || node comes back",
			nslots: 1,
			threads: vec!["refresh", "down", "up"],
			setup: |cx| {
				fund(cx, W, 1);
				settle(cx, 4);
				send_from(cx, W, CP, 0, REWARD, true, false, 4);
				cx.scen.mine_pool(MINER).unwrap();
			},
		},
	]
}

// ------------------------------------------------------------------ one run

struct RunOut {
	schedule: Vec<usize>,
	steps: Vec<u32>,
	results: Vec<u64>,
	snapshot: Value,
	node: Value,
	fin: Vec<bool>,
	deadlock: bool,
	deviation: bool,
	/// enabled sets seen at each decision (for the DFS)
	enabled: Vec<Vec<usize>>,
	preempt: u32,
	/// the requested subtree prefix is not executable (nothing to explore there)
	pruned: bool,
}

/// chooser(depth, enabled) -> index into enabled
fn run_once(
	node: &Arc<NodeCtl>,
	base_tip: &grin_core::core::BlockHeader,
	base_pool: &[grin_core::core::Transaction],
	base: &str,
	run_dir: &str,
	sc: &Scenario,
	threads: &[String],
	slots0: &[Slot],
	bound: u32,
	prefix: &[usize],
	chooser: &mut dyn FnMut(usize, &[usize]) -> usize,
	watchdog: Duration,
) -> RunOut {
	let _ = std::fs::remove_dir_all(run_dir);
	copy_dir(std::path::Path::new(base), std::path::Path::new(run_dir));
	if node.chain.head().unwrap().last_block_h != base_tip.hash() {
		node.chain
			.reset_chain_head(grin_chain::Tip::from_header(base_tip), true)
			.expect("rewind chain to base tip");
	}
	{
		let mut p = node.pool.lock();
		p.clear();
		p.extend(base_pool.iter().cloned());
	}
	node.down.store(false, std::sync::atomic::Ordering::Relaxed);
	SALT.fetch_add(1, std::sync::atomic::Ordering::Relaxed);
	let scen = open_scen(run_dir, node.clone());
	let cx = Arc::new(Ctx {
		scen,
		slots: slots0.iter().map(|s| StdMutex::new(s.clone())).collect(),
		w: W,
		cp: CP,
		miner: MINER,
	});
	let _ = sc;
	let n = threads.len();
	gate_reset(n);
	let results = Arc::new(StdMutex::new(vec![999u64; n]));
	let mut handles = vec![];
	let mut out = RunOut {
		schedule: vec![],
		steps: vec![],
		results: vec![],
		snapshot: Value::Null,
		node: Value::Null,
		fin: vec![],
		deadlock: false,
		deviation: false,
		enabled: vec![],
		preempt: 0,
		pruned: false,
	};
	for (tid, op) in threads.iter().enumerate() {
		let cx2 = cx.clone();
		let op2 = op.clone();
		let res2 = results.clone();
		handles.push(std::thread::spawn(move || {
			init_thread();
			TID.with(|t| t.set(tid));
			let c = run_op(&cx2, &op2);
			res2.lock().unwrap()[tid] = c;
			TID.with(|t| t.set(NONE));
			thread_done(tid);
		}));
		// let it reach its first gate before the next one starts
		if !wait_quiescent(tid, watchdog) {
			out.deadlock = true;
			return out;
		}
	}
	let mut last = NONE;
	let mut depth = 0;
	loop {
		let (alive, last_alive): (Vec<usize>, bool) = {
			let st = GATE.m.lock().unwrap();
			let a: Vec<usize> = (0..n).filter(|&t| !st.done[t]).collect();
			let la = last != NONE && !st.done[last];
			(a, la)
		};
		if alive.is_empty() {
			break;
		}
		// preemption = leaving a multi-section wallet thread that is not finished for
		// another wallet thread; environment steps are free
		let mut enabled: Vec<usize> = vec![];
		if last_alive {
			enabled.push(last);
		}
		for &t in alive.iter() {
			if last_alive && t == last {
				continue;
			}
			let costs = last_alive && !is_env(&threads[last]) && !is_env(&threads[t]);
			if costs && out.preempt >= bound {
				continue;
			}
			enabled.push(t);
		}
		if depth < prefix.len() {
			// subtree restriction (sharding): only the given thread may run here
			if enabled.contains(&prefix[depth]) {
				enabled = vec![prefix[depth]];
			} else {
				out.pruned = true;
				enabled.truncate(1);
			}
		}
		let k = chooser(depth, &enabled);
		let k = if k >= enabled.len() {
			out.deviation = true;
			0
		} else {
			k
		};
		let t = enabled[k];
		if last_alive && t != last && !is_env(&threads[last]) && !is_env(&threads[t]) {
			out.preempt += 1;
		}
		out.enabled.push(enabled);
		out.schedule.push(t);
		grant(t);
		if !wait_quiescent(t, watchdog) {
			out.deadlock = true;
			out.steps = GATE.m.lock().unwrap().steps.clone();
			return out;
		}
		// environment threads do not become `last` (they never hold a position to preempt)
		if !is_env(&threads[t]) {
			last = t;
		}
		depth += 1;
	}
	for h in handles {
		let _ = h.join();
	}
	out.steps = GATE.m.lock().unwrap().steps.clone();
	out.results = results.lock().unwrap().clone();
	out.snapshot = snapshot_ext(&cx);
	out.node = node_view(&cx);
	out.fin = cx.slots.iter().map(|s| s.lock().unwrap().fin.is_some()).collect();
	match Arc::try_unwrap(cx) {
		Ok(c) => close_scen(c.scen),
		Err(_) => {}
	}
	out
}

fn run_json(sc: &str, kind: &str, r: &RunOut) -> Value {
	json!({"scenario": sc, "kind": kind, "schedule": r.schedule, "steps": r.steps,
		"results": r.results, "snapshot": r.snapshot, "node": r.node, "fin": r.fin, "deadlock": r.deadlock,
		"deviation": r.deviation, "preempt": r.preempt})
}

// ------------------------------------------------------------------ lifecycle: the updater THREAD against owner-API calls

/// The updater thread of `api::Owner::start_updater` (thread name "wallet-updater") is parked at its
/// k-th `wallet_lock!` acquisition; an owner-API call that takes the wallet mutex outside `wallet_lock!`
/// (close_wallet, ...) is issued from another thread meanwhile; the updater is released shortly after.
/// The call has to return: "no interleaving deadlocks" for the lock pair (wallet mutex, updater mutex).
struct LState {
	armed: bool,
	target: u32,
	count: u32,
	parked: bool,
	release: bool,
}
struct LGate {
	m: StdMutex<LState>,
	cv: Condvar,
}
lazy_static! {
	static ref LG: LGate = LGate {
		m: StdMutex::new(LState { armed: false, target: 0, count: 0, parked: false, release: false }),
		cv: Condvar::new(),
	};
}
fn lgate() {
	if std::thread::current().name() != Some("wallet-updater") {
		return;
	}
	let mut st = LG.m.lock().unwrap();
	if !st.armed {
		return;
	}
	st.count += 1;
	if st.count == st.target {
		st.parked = true;
		LG.cv.notify_all();
		while !st.release {
			st = LG.cv.wait(st).unwrap();
		}
		st.parked = false;
		st.armed = false;
	}
}

fn run_lifecycle(out: &mut Out, root: &str) {
	use grin_wallet_api::Owner;
	let ops = ["close_wallet", "stop_updater_then_close_wallet", "retrieve_summary_info", "set_active_account", "accounts"];
	let kmax = arg_u64("kmax", 14) as u32;
	let wait_s = arg_u64("lifecycle_wait", 12);
	libwallet::verif_hooks::set_before_lock(Some(Arc::new(lgate)));
	// (the updater thread is spawned by the API: it has no thread-local chain type)
	grin_core::global::init_global_chain_type(grin_core::global::ChainTypes::AutomatedTesting);
	let dir = format!("{}/lifecycle", root);
	let mut s = Scen::new(&dir);
	let w = s.add_wallet("w", None, false);
	let cp = s.add_wallet("cp", None, false);
	s.mine(w, 5);
	s.mine(cp, 3);
	let _ = owner::retrieve_summary_info(s.wallets[w].inst.clone(), None, &None, true, 1);
	// a pending send, so that the refresh has kernels and outputs to look up
	{
		let args = InitTxArgs {
			src_acct_name: None,
			amount: 1_000_000_000,
			minimum_confirmations: 1,
			max_outputs: 500,
			num_change_outputs: 1,
			selection_strategy_is_use_all: false,
			..Default::default()
		};
		let _ = s.with(w, |b, m| {
			let sl = owner::init_send_tx(b, m, args, false)?;
			owner::tx_lock_outputs(b, m, &sl)
		});
	}
	let mut stuck = false;
	'outer: for op in ops.iter() {
		for k in 1..=kmax {
			s.reopen(w);
			let o = Arc::new(Owner::new(s.wallets[w].inst.clone(), None));
			{
				let mut st = LG.m.lock().unwrap();
				*st = LState { armed: true, target: k, count: 0, parked: false, release: false };
			}
			let _ = o.start_updater(None, Duration::from_millis(40));
			// wait until the updater thread is parked at its k-th acquisition
			let t0 = Instant::now();
			let parked = {
				let mut st = LG.m.lock().unwrap();
				while !st.parked && t0.elapsed() < Duration::from_secs(arg_u64("park_wait", 20)) {
					let (g, _) = LG.cv.wait_timeout(st, Duration::from_millis(200)).unwrap();
					st = g;
				}
				st.parked
			};
			let count_seen = LG.m.lock().unwrap().count;
			let (tx, rx) = std::sync::mpsc::channel::<String>();
			let o2 = o.clone();
			let opn = op.to_string();
			let h = std::thread::Builder::new()
				.name("lifecycle-op".into())
				.spawn(move || {
					let r = match opn.as_str() {
						"close_wallet" => o2.close_wallet(None).map(|_| ()),
						"stop_updater_then_close_wallet" => o2.stop_updater().and_then(|_| o2.close_wallet(None)),
						"retrieve_summary_info" => o2.retrieve_summary_info(None, false, 1).map(|_| ()),
						"set_active_account" => o2.set_active_account(None, "default"),
						_ => o2.accounts(None).map(|_| ()),
					};
					let _ = tx.send(match r {
						Ok(_) => "ok".to_owned(),
						Err(e) => format!("err: {}", e),
					});
				})
				.unwrap();
			std::thread::sleep(Duration::from_millis(150));
			{
				let mut st = LG.m.lock().unwrap();
				st.release = true;
				st.armed = false;
				LG.cv.notify_all();
			}
			let t1 = Instant::now();
			let res = rx.recv_timeout(Duration::from_secs(wait_s));
			let returned = res.is_ok();
			out.line(&json!({"kind": "lifecycle", "op": op, "k": k, "parked": parked, "count": count_seen, "returned": returned,
				"result": res.unwrap_or_else(|_| "no return".to_owned()), "ms": t1.elapsed().as_millis() as u64}));
			if !returned {
				// the wallet mutex is held for good: nothing more can be run in this process
				stuck = true;
				let _ = h;
				break 'outer;
			}
			let _ = h.join();
			let _ = o.stop_updater();
			// the updater thread ends after its current pass (or with the error of a closed wallet)
			let t2 = Instant::now();
			while o.updater_running.load(std::sync::atomic::Ordering::Relaxed) && t2.elapsed() < Duration::from_secs(5) {
				std::thread::sleep(Duration::from_millis(20));
			}
			std::thread::sleep(Duration::from_millis(120));
		}
	}
	out.line(&json!({"kind": "lifecycle_end", "stuck": stuck}));
	libwallet::verif_hooks::set_before_lock(None);
	if stuck {
		out.flush();
		std::process::exit(0);
	}
	close_scen(s);
}

fn main() {
	if std::env::var("C20_LOUD").is_err() { quiet_panics(); }
	init_thread();
	if std::env::args().any(|a| a == "--list") {
		let v: Vec<Value> = scenarios()
			.iter()
			.map(|s| json!({"name": s.name, "what": s.what, "threads": s.threads}))
			.collect();
		println!("{}", json!(v));
		return;
	}
	let out_path = arg("out").expect("--out");
	let mut out = Out::create(&out_path);
	let only = arg("scenario");
	let bound = arg_u64("bound", 1000) as u32;
	let max_runs = arg_u64("max", 1_000_000) as usize;
	let watchdog = Duration::from_secs(arg_u64("watchdog", 300));
	let prefix: Vec<usize> = arg("prefix")
		.map(|p| p.split(',').filter(|x| !x.is_empty()).map(|x| x.parse().unwrap()).collect())
		.unwrap_or_default();
	let root = format!("/tmp/vh_c20_{}", std::process::id());
	let _ = std::fs::remove_dir_all(&root);
	std::fs::create_dir_all(&root).unwrap();
	if arg("mode").as_deref() == Some("lifecycle") {
		run_lifecycle(&mut out, &root);
		out.finish();
		let _ = std::fs::remove_dir_all(&root);
		return;
	}
	libwallet::verif_hooks::set_before_lock(Some(Arc::new(gate)));
	let replay: Option<Value> = arg("replay").map(|p| serde_json::from_reader(std::fs::File::open(p).unwrap()).unwrap());

	for sc in scenarios() {
		let mut threads: Vec<String> = sc.threads.iter().map(|s| s.to_string()).collect();
		if let Some(o) = &only {
			if o != sc.name {
				continue;
			}
		}
		if let Some(r) = &replay {
			if r["scenario"].as_str() != Some(sc.name) {
				continue;
			}
			if let Some(t) = r["threads"].as_array() {
				threads = t.iter().map(|x| x.as_str().unwrap().to_string()).collect();
			}
		}
		if let Some(t) = arg("threads") {
			threads = t.split(',').map(|s| s.to_string()).collect();
		}
		// ---- base
		let t0 = Instant::now();
		let base = format!("{}/{}_base", root, sc.name);
		let mut s = Scen::new(&base);
		for nme in NAMES.iter() {
			s.add_wallet(nme, None, false);
		}
		let mut cx = Ctx {
			scen: s,
			slots: (0..sc.nslots).map(|_| StdMutex::new(Slot::default())).collect(),
			w: W,
			cp: CP,
			miner: MINER,
		};
		(sc.setup)(&mut cx);
		let init_snap = snapshot_ext(&cx);
		let init_node = node_view(&cx);
		let init_ctxs = ctx_view(&cx);
		let slots0: Vec<Slot> = cx.slots.iter().map(|s| s.lock().unwrap().clone()).collect();
		let slot_info: Vec<Value> = slots0
			.iter()
			.map(|s| {
				json!({"has0": s.slate0.is_some(), "has1": s.slate1.is_some(), "fin": s.fin.is_some(),
					"posted": s.posted, "proof": s.proof,
					"amount": s.slate0.as_ref().map(|x| x.amount.to_string()),
					"fee": s.slate0.as_ref().map(|x| x.fee_fields.fee().to_string()),
					"ttl": s.slate0.as_ref().map(|x| x.ttl_cutoff_height)})
			})
			.collect();
		let node = cx.scen.node.clone();
		let base_tip = node.chain.head_header().unwrap();
		let base_pool: Vec<grin_core::core::Transaction> = node.pool.lock().clone();
		close_scen(cx.scen);
		out.line(&json!({"scenario": sc.name, "kind": "header", "what": sc.what, "threads": threads,
			"init": init_snap, "node": init_node, "slots": slot_info, "ctxs": init_ctxs,
			"setup_ms": t0.elapsed().as_millis() as u64}));
		let run_dir = format!("{}/{}_run", root, sc.name);

		// ---- replay of one explicit schedule
		if let Some(r) = &replay {
			let sched: Vec<usize> = r["schedule"].as_array().unwrap().iter().map(|x| x.as_u64().unwrap() as usize).collect();
			let mut ch = |d: usize, en: &[usize]| -> usize {
				if d < sched.len() {
					en.iter().position(|&t| t == sched[d]).unwrap_or(usize::MAX)
				} else {
					usize::MAX
				}
			};
			let ro = run_once(&node, &base_tip, &base_pool, &base, &run_dir, &sc, &threads, &slots0, 1000, &[], &mut ch, watchdog);
			out.line(&run_json(sc.name, "replay", &ro));
			continue;
		}

		// ---- DFS over all schedules within the preemption bound
		let mut stack: Vec<(Vec<usize>, usize)> = vec![];
		let mut count = 0usize;
		let mut nondet = 0u64;
		loop {
			{
				let mut st = std::mem::take(&mut stack);
				let mut nd = 0u64;
				let ro = {
					let mut ch = |d: usize, en: &[usize]| -> usize {
						if d < st.len() {
							if st[d].0 != en {
								// the same choices led to a different enabled set: the run is not
								// a function of the schedule
								nd += 1;
								st.truncate(d);
								st.push((en.to_vec(), 0));
								return 0;
							}
							st[d].1
						} else {
							st.push((en.to_vec(), 0));
							0
						}
					};
					run_once(&node, &base_tip, &base_pool, &base, &run_dir, &sc, &threads, &slots0, bound, &prefix, &mut ch, watchdog)
				};
				nondet += nd;
				stack = st;
				if ro.pruned {
					break;
				}
				out.line(&run_json(sc.name, "dfs", &ro));
				if ro.deadlock {
					out.line(&json!({"scenario": sc.name, "kind": "abort", "reason": "watchdog"}));
					out.finish();
					std::process::exit(3);
				}
				count += 1;
			}
			// backtrack
			loop {
				match stack.last_mut() {
					None => break,
					Some(top) => {
						top.1 += 1;
						if top.1 < top.0.len() {
							break;
						}
						stack.pop();
					}
				}
			}
			if stack.is_empty() || count >= max_runs {
				break;
			}
		}
		out.line(&json!({"scenario": sc.name, "kind": "footer", "runs": count, "nondeterminism": nondet,
			"total_ms": t0.elapsed().as_millis() as u64}));
	}
	out.finish();
	let _ = std::fs::remove_dir_all(&root);
}
