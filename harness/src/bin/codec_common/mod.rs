//! Helpers shared by the C08 and C09 harness binaries (`#[path] mod`, not a cargo target):
//! hex, key pools, structural generator of V4 slates / slatepacks, canonical projections
//! (the integer lists compared with the Coq models, see coq/theories/Codec*.v `canon_*`),
//! external-validity tables handed to the model, a small bech32 encoder, age helpers.
#![allow(dead_code)]

use ed25519_dalek::PublicKey as DalekPublicKey;
use ed25519_dalek::SecretKey as DalekSecretKey;
use ed25519_dalek::Signature as DalekSignature;
use grin_core::core::FeeFields;
use grin_keychain::BlindingFactor;
use grin_util::secp::key::{PublicKey, SecretKey};
use grin_util::secp::pedersen::{Commitment, RangeProof};
use grin_util::secp::Signature;
use grin_util::static_secp_instance;
use std::convert::TryFrom;
use vharness::libwallet::slate_versions::v4::{
	CommitsV4, KernelFeaturesArgsV4, OutputFeaturesV4, ParticipantDataV4, PaymentInfoV4,
	SlateStateV4, SlateV4, VersionCompatInfoV4,
};
use vharness::libwallet::{Slatepack, SlatepackAddress};
use vharness::prng::Prng;

pub fn hex(b: &[u8]) -> String {
	let mut s = String::with_capacity(b.len() * 2);
	for x in b {
		s.push_str(&format!("{:02x}", x));
	}
	s
}
pub fn unhex(s: &str) -> Vec<u8> {
	(0..s.len() / 2)
		.map(|i| u8::from_str_radix(&s[2 * i..2 * i + 2], 16).unwrap())
		.collect()
}

/// canonical "bytes" value: length followed by the bytes
pub fn cbytes(out: &mut Vec<u64>, b: &[u8]) {
	out.push(b.len() as u64);
	out.extend(b.iter().map(|x| *x as u64));
}
pub fn craw(out: &mut Vec<u64>, b: &[u8]) {
	out.extend(b.iter().map(|x| *x as u64));
}

// ------------------------------------------------------------------ key pools

pub struct Pools {
	pub pks: Vec<PublicKey>,
	pub eds: Vec<DalekPublicKey>,
	pub addrs: Vec<SlatepackAddress>,
	/// the wallet's own ed25519 secret (slatepacks are encrypted to its address)
	pub my_ed_secret: [u8; 32],
	pub my_addr: SlatepackAddress,
}

pub fn ed_secret(i: u8) -> [u8; 32] {
	let mut b = [7u8; 32];
	b[0] = i;
	b[31] = i.wrapping_mul(3);
	b
}

impl Pools {
	pub fn new() -> Pools {
		let secp_inst = static_secp_instance();
		let secp = secp_inst.lock();
		let mut pks = vec![];
		for i in 1..=24u8 {
			let mut b = [0x11u8; 32];
			b[0] = i;
			b[17] = i.wrapping_mul(7);
			let sk = SecretKey::from_slice(&secp, &b).unwrap();
			pks.push(PublicKey::from_secret_key(&secp, &sk).unwrap());
		}
		let mut eds = vec![];
		let mut addrs = vec![];
		for i in 1..=12u8 {
			let sk = DalekSecretKey::from_bytes(&ed_secret(i)).unwrap();
			let pk = DalekPublicKey::from(&sk);
			eds.push(pk);
			let mut a = SlatepackAddress::new(&pk);
			if i % 4 == 0 {
				a.hrp = "grin".to_string();
			}
			addrs.push(a);
		}
		let my_ed_secret = ed_secret(1);
		let my_addr = addrs[0].clone();
		Pools {
			pks,
			eds,
			addrs,
			my_ed_secret,
			my_addr,
		}
	}
	pub fn my_key(&self) -> DalekSecretKey {
		DalekSecretKey::from_bytes(&self.my_ed_secret).unwrap()
	}
}

pub fn pk_bytes(pk: &PublicKey) -> Vec<u8> {
	let secp_inst = static_secp_instance();
	let secp = secp_inst.lock();
	pk.serialize_vec(&secp, true).to_vec()
}

// ------------------------------------------------------------------ generators

pub const BOUNDARY_U64: [u64; 12] = [
	0,
	1,
	2,
	255,
	256,
	65535,
	1 << 32,
	1 << 40,
	(1 << 40) - 1,
	(1 << 40) + 5,
	u64::MAX - 1,
	u64::MAX,
];

pub fn gen_u64(p: &mut Prng) -> u64 {
	match p.below(10) {
		0..=4 => *p.pick(&BOUNDARY_U64),
		5..=6 => p.below(1_000_000),
		7 => (p.below(16) << 40) | p.below(1 << 40),
		_ => p.next(),
	}
}

pub fn gen_sig(p: &mut Prng) -> Signature {
	let mut b = [0u8; 64];
	let v = p.bytes(64);
	b.copy_from_slice(&v);
	Signature::from_raw_data(&b).unwrap()
}
pub fn gen_edsig(p: &mut Prng) -> DalekSignature {
	let mut v = p.bytes(64);
	v[63] &= 0x1f;
	DalekSignature::try_from(&v[..]).unwrap()
}
pub fn gen_commit(p: &mut Prng) -> Commitment {
	let mut v = p.bytes(33);
	v[0] = 8 + (v[0] & 1);
	Commitment::from_vec(v)
}
pub fn gen_proof(p: &mut Prng, plen: usize) -> RangeProof {
	let mut proof = [0u8; 675];
	let v = p.bytes(plen);
	proof[..plen].copy_from_slice(&v);
	RangeProof { proof, plen }
}

pub fn state_of(i: u64) -> SlateStateV4 {
	match i {
		0 => SlateStateV4::Unknown,
		1 => SlateStateV4::Standard1,
		2 => SlateStateV4::Standard2,
		3 => SlateStateV4::Standard3,
		4 => SlateStateV4::Invoice1,
		5 => SlateStateV4::Invoice2,
		_ => SlateStateV4::Invoice3,
	}
}
pub fn state_num(s: &SlateStateV4) -> u64 {
	match s {
		SlateStateV4::Unknown => 0,
		SlateStateV4::Standard1 => 1,
		SlateStateV4::Standard2 => 2,
		SlateStateV4::Standard3 => 3,
		SlateStateV4::Invoice1 => 4,
		SlateStateV4::Invoice2 => 5,
		SlateStateV4::Invoice3 => 6,
	}
}

/// Generator options: `wild` also produces slates outside the documented well-formedness
/// domain of the binary encoding (short proofs, output feature bytes > 1, feat_args that the
/// binary form does not carry...), used to probe the boundary of `wf`.
pub struct GenOpt {
	pub wild: bool,
	pub max_sigs: u64,
	pub max_coms: u64,
	/// a commitment is an output (carries a 675-byte range proof) with probability 1/proof_den
	pub proof_den: u64,
}

pub fn gen_v4(p: &mut Prng, pools: &Pools, o: &GenOpt) -> SlateV4 {
	let mut idb = [0u8; 16];
	idb.copy_from_slice(&p.bytes(16));
	let feat = match p.below(12) {
		0..=4 => 0u8,
		5..=6 => 1,
		7..=8 => 2,
		9..=10 => 3,
		_ => {
			if o.wild {
				*p.pick(&[4u8, 7, 255])
			} else {
				2
			}
		}
	};
	// feat_args: present iff the encoding writes it (feat == 2) on the well-formed path; the
	// other combinations are generated on purpose (known wire-format findings live there)
	let feat_args = match (feat, p.below(10)) {
		(2, 0) => None,
		(2, _) => Some(KernelFeaturesArgsV4 { lock_hgt: gen_u64(p) }),
		(_, 0) => Some(KernelFeaturesArgsV4 { lock_hgt: gen_u64(p) }),
		_ => None,
	};
	let nsigs = match p.below(10) {
		0 => 0,
		1..=3 => 1,
		4..=7 => 2,
		8 => p.range(3, 6),
		_ => p.range(0, o.max_sigs),
	};
	let mut sigs = vec![];
	for _ in 0..nsigs {
		sigs.push(ParticipantDataV4 {
			xs: p.pick(&pools.pks).clone(),
			nonce: p.pick(&pools.pks).clone(),
			part: if p.coin() { Some(gen_sig(p)) } else { None },
		});
	}
	let coms = if p.chance(2, 5) {
		None
	} else {
		let n = match p.below(10) {
			0 => 0,
			1..=3 => 1,
			4..=6 => 2,
			7..=8 => p.range(3, 6),
			_ => p.range(0, o.max_coms),
		};
		let mut v = vec![];
		for _ in 0..n {
			let f = if o.wild && p.chance(1, 10) {
				*p.pick(&[2u8, 255])
			} else {
				p.below(2) as u8
			};
			let pr = if p.chance(1, o.proof_den) {
				let plen = if o.wild && p.chance(1, 6) {
					*p.pick(&[0usize, 1, 674])
				} else {
					675
				};
				Some(gen_proof(p, plen))
			} else {
				None
			};
			v.push(CommitsV4 {
				f: OutputFeaturesV4(f),
				c: gen_commit(p),
				p: pr,
			});
		}
		Some(v)
	};
	let proof = if p.chance(2, 5) {
		Some(PaymentInfoV4 {
			saddr: p.pick(&pools.eds).clone(),
			raddr: p.pick(&pools.eds).clone(),
			rsig: if p.coin() { Some(gen_edsig(p)) } else { None },
		})
	} else {
		None
	};
	let off = if p.chance(1, 4) {
		BlindingFactor::zero()
	} else {
		BlindingFactor::from_slice(&p.bytes(32))
	};
	let fee_raw = match p.below(8) {
		0..=1 => 0,
		2..=4 => p.range(1, 50_000_000),
		5 => (p.below(16) << 40) | p.range(1, (1 << 40) - 1),
		6 => p.below(16) << 40, // fee() == 0 but raw != 0 (shift only)
		_ => gen_u64(p),
	};
	SlateV4 {
		ver: VersionCompatInfoV4 {
			version: *p.pick(&[4u16, 4, 4, 0, 3, 5, 65535]),
			block_header_version: *p.pick(&[3u16, 3, 2, 0, 65535]),
		},
		id: uuid::Uuid::from_bytes(idb),
		sta: state_of(p.below(7)),
		off,
		num_parts: *p.pick(&[2u8, 2, 2, 0, 1, 3, 255]),
		amt: if p.chance(1, 4) { 0 } else { gen_u64(p) },
		fee: serde_json::from_str::<FeeFields>(&format!("\"{}\"", fee_raw)).unwrap(),
		feat,
		ttl: if p.chance(1, 2) { 0 } else { gen_u64(p) },
		sigs,
		coms,
		proof,
		feat_args,
	}
}

/// canonical projection of a V4 slate (shared layout with CodecSlate.v `canon_v4`)
pub fn canon_v4(v: &SlateV4) -> Vec<u64> {
	let mut o = vec![v.ver.version as u64, v.ver.block_header_version as u64];
	craw(&mut o, v.id.as_bytes());
	o.push(state_num(&v.sta));
	craw(&mut o, v.off.as_ref());
	o.push(v.num_parts as u64);
	o.push(v.amt);
	o.push(u64::from(v.fee));
	o.push(v.feat as u64);
	o.push(v.ttl);
	o.push(v.sigs.len() as u64);
	for s in v.sigs.iter() {
		craw(&mut o, &pk_bytes(&s.xs));
		craw(&mut o, &pk_bytes(&s.nonce));
		match &s.part {
			Some(sig) => {
				o.push(1);
				craw(&mut o, sig.as_ref());
			}
			None => o.push(0),
		}
	}
	match &v.coms {
		None => o.push(0),
		Some(cs) => {
			o.push(1);
			o.push(cs.len() as u64);
			for c in cs.iter() {
				o.push(c.f.0 as u64);
				craw(&mut o, &c.c.0);
				match &c.p {
					Some(p) => {
						o.push(1);
						cbytes(&mut o, &p.proof[..p.plen]);
					}
					None => o.push(0),
				}
			}
		}
	}
	match &v.proof {
		None => o.push(0),
		Some(pi) => {
			o.push(1);
			craw(&mut o, &pi.saddr.to_bytes());
			craw(&mut o, &pi.raddr.to_bytes());
			match &pi.rsig {
				Some(s) => {
					o.push(1);
					craw(&mut o, &s.to_bytes());
				}
				None => o.push(0),
			}
		}
	}
	match &v.feat_args {
		None => o.push(0),
		Some(a) => {
			o.push(1);
			o.push(a.lock_hgt);
		}
	}
	o
}

pub fn addr_string(a: &SlatepackAddress) -> String {
	String::try_from(a).unwrap_or_else(|_| "<unencodable>".to_string())
}

/// canonical projection of a slatepack as the binary form carries it
pub fn canon_sp(sp: &Slatepack) -> Vec<u64> {
	let mut o = vec![
		sp.slatepack.major as u64,
		sp.slatepack.minor as u64,
		sp.mode as u64,
	];
	match &sp.sender {
		Some(a) => {
			o.push(1);
			cbytes(&mut o, addr_string(a).as_bytes());
		}
		None => o.push(0),
	}
	cbytes(&mut o, &sp.payload);
	o
}

/// canonical projection after decryption: sender, recipients, payload
pub fn canon_sp_meta(sp: &Slatepack) -> Vec<u64> {
	let mut o = vec![];
	match &sp.sender {
		Some(a) => {
			o.push(1);
			cbytes(&mut o, addr_string(a).as_bytes());
		}
		None => o.push(0),
	}
	o.push(sp.recipients().len() as u64);
	for r in sp.recipients() {
		cbytes(&mut o, addr_string(r).as_bytes());
	}
	cbytes(&mut o, &sp.payload);
	o
}

// ------------------------------------------------------------------ external-validity tables

/// bit i set <=> bs[i..i+33] parses as a compressed secp256k1 public key
pub fn pk_mask(bs: &[u8]) -> Vec<usize> {
	let secp_inst = static_secp_instance();
	let secp = secp_inst.lock();
	let mut v = vec![];
	if bs.len() >= 33 {
		for i in 0..=bs.len() - 33 {
			if (bs[i] == 2 || bs[i] == 3) && PublicKey::from_slice(&secp, &bs[i..i + 33]).is_ok() {
				v.push(i);
			}
		}
	}
	v
}
/// offsets i such that bs[i..i+32] is accepted by ed25519_dalek::PublicKey::from_bytes
pub fn ed_mask(bs: &[u8]) -> Vec<usize> {
	let mut v = vec![];
	if bs.len() >= 32 {
		for i in 0..=bs.len() - 32 {
			if DalekPublicKey::from_bytes(&bs[i..i + 32]).is_ok() {
				v.push(i);
			}
		}
	}
	v
}
pub fn mask_to_dec(offsets: &[usize]) -> String {
	// decimal rendering of sum 2^i (arbitrary precision by hand: base 1e9 limbs)
	let mut limbs: Vec<u64> = vec![0];
	let maxbit = offsets.iter().cloned().max().map(|m| m + 1).unwrap_or(0);
	let set: std::collections::HashSet<usize> = offsets.iter().cloned().collect();
	for bit in (0..maxbit).rev() {
		// limbs = limbs*2 + bit
		let mut carry = if set.contains(&bit) { 1u64 } else { 0 };
		for l in limbs.iter_mut() {
			let x = *l * 2 + carry;
			*l = x % 1_000_000_000;
			carry = x / 1_000_000_000;
		}
		if carry > 0 {
			limbs.push(carry);
		}
	}
	let mut s = format!("{}", limbs[limbs.len() - 1]);
	for l in limbs.iter().rev().skip(1) {
		s.push_str(&format!("{:09}", l));
	}
	s
}
/// every length-prefixed window (u8 n, n bytes) of `bs` that parses as a slatepack address:
/// (raw string, canonical re-encoding)
pub fn addr_table(bs: &[u8]) -> Vec<(Vec<u8>, Vec<u8>)> {
	let mut v: Vec<(Vec<u8>, Vec<u8>)> = vec![];
	for i in 0..bs.len() {
		let n = bs[i] as usize;
		if n < 8 || i + 1 + n > bs.len() {
			continue;
		}
		let w = &bs[i + 1..i + 1 + n];
		if let Ok(s) = std::str::from_utf8(w) {
			if let Ok(Ok(a)) = vharness::guarded(|| SlatepackAddress::try_from(s)) {
				let c = addr_string(&a).into_bytes();
				if !v.iter().any(|x| x.0 == w) {
					v.push((w.to_vec(), c));
				}
			}
		}
	}
	v
}

// ------------------------------------------------------------------ bech32 (BIP-173) encoder

const B32: &[u8] = b"qpzry9x8gf2tvdw0s3jn54khce6mua7l";
fn polymod(values: &[u8]) -> u32 {
	let gen = [0x3b6a57b2u32, 0x26508e6d, 0x1ea119fa, 0x3d4233dd, 0x2a1462b3];
	let mut chk: u32 = 1;
	for v in values {
		let b = chk >> 25;
		chk = ((chk & 0x1ffffff) << 5) ^ (*v as u32);
		for i in 0..5 {
			if (b >> i) & 1 == 1 {
				chk ^= gen[i];
			}
		}
	}
	chk
}
pub fn bech32_encode(hrp: &str, data: &[u8]) -> String {
	// 8 -> 5 bit regrouping with padding
	let mut d5 = vec![];
	let (mut acc, mut bits) = (0u32, 0u32);
	for b in data {
		acc = (acc << 8) | *b as u32;
		bits += 8;
		while bits >= 5 {
			bits -= 5;
			d5.push(((acc >> bits) & 31) as u8);
		}
	}
	if bits > 0 {
		d5.push(((acc << (5 - bits)) & 31) as u8);
	}
	let mut v: Vec<u8> = hrp.bytes().map(|c| c >> 5).collect();
	v.push(0);
	v.extend(hrp.bytes().map(|c| c & 31));
	v.extend(d5.iter());
	v.extend(&[0u8; 6]);
	let pm = polymod(&v) ^ 1;
	let mut s = format!("{}1", hrp);
	for x in d5.iter() {
		s.push(B32[*x as usize] as char);
	}
	for i in 0..6 {
		s.push(B32[((pm >> (5 * (5 - i))) & 31) as usize] as char);
	}
	s
}

// ------------------------------------------------------------------ age helpers

/// age-encrypt arbitrary plaintext to a slatepack address (what try_encrypt_payload does
/// after building the metadata prefix)
pub fn age_encrypt_to(addr: &SlatepackAddress, plaintext: &[u8]) -> Vec<u8> {
	use std::io::Write;
	let rk: age::x25519::Recipient = addr.to_age_pubkey_str().unwrap().parse().unwrap();
	let enc = age::Encryptor::with_recipients(vec![Box::new(rk) as Box<dyn age::Recipient>]);
	let mut out = vec![];
	let mut w = enc.wrap_output(&mut out).unwrap();
	w.write_all(plaintext).unwrap();
	w.finish().unwrap();
	out
}
pub fn age_encrypt_passphrase(plaintext: &[u8]) -> Vec<u8> {
	use std::io::Write;
	let enc = age::Encryptor::with_user_passphrase(age::secrecy::SecretString::new("pw".to_string()));
	let mut out = vec![];
	let mut w = enc.wrap_output(&mut out).unwrap();
	w.write_all(plaintext).unwrap();
	w.finish().unwrap();
	out
}
/// decrypt with the x25519 identity derived from an ed25519 secret exactly as the wallet does
pub fn age_decrypt_with(ed_secret: &[u8; 32], data: &[u8]) -> Option<Vec<u8>> {
	use sha2::{Digest, Sha512};
	use std::io::Read;
	let mut hasher = Sha512::new();
	hasher.update(ed_secret);
	let result = hasher.finalize();
	let mut b = [0u8; 32];
	b.copy_from_slice(&result[0..32]);
	let xs = x25519_dalek::StaticSecret::from(b);
	let s = bech32_encode("age-secret-key-", &xs.to_bytes()).to_uppercase();
	let key: age::x25519::Identity = s.parse().ok()?;
	let d = match age::Decryptor::new(data).ok()? {
		age::Decryptor::Recipients(d) => d,
		_ => return None,
	};
	let mut out = vec![];
	let mut r = d.decrypt(std::iter::once(&key as &dyn age::Identity)).ok()?;
	r.read_to_end(&mut out).ok()?;
	Some(out)
}

// ------------------------------------------------------------------ canonical form -> SlateV4 (replay)

struct Cur<'a> {
	v: &'a [u64],
	i: usize,
}
impl<'a> Cur<'a> {
	fn n(&mut self) -> u64 {
		let x = self.v[self.i];
		self.i += 1;
		x
	}
	fn raw(&mut self, k: usize) -> Vec<u8> {
		let b: Vec<u8> = self.v[self.i..self.i + k].iter().map(|x| *x as u8).collect();
		self.i += k;
		b
	}
	fn bytes(&mut self) -> Vec<u8> {
		let k = self.n() as usize;
		self.raw(k)
	}
}

/// inverse of `canon_v4` (panics on a list that is not a canonical slate)
pub fn v4_from_canon(c: &[u64]) -> SlateV4 {
	let secp_inst = static_secp_instance();
	let secp = secp_inst.lock();
	let mut r = Cur { v: c, i: 0 };
	let ver = r.n() as u16;
	let bhv = r.n() as u16;
	let mut idb = [0u8; 16];
	idb.copy_from_slice(&r.raw(16));
	let sta = state_of(r.n());
	let off = BlindingFactor::from_slice(&r.raw(32));
	let num_parts = r.n() as u8;
	let amt = r.n();
	let fee_raw = r.n();
	let feat = r.n() as u8;
	let ttl = r.n();
	let nsigs = r.n();
	let mut sigs = vec![];
	for _ in 0..nsigs {
		let xs = PublicKey::from_slice(&secp, &r.raw(33)).unwrap();
		let nonce = PublicKey::from_slice(&secp, &r.raw(33)).unwrap();
		let part = if r.n() == 1 {
			let mut b = [0u8; 64];
			b.copy_from_slice(&r.raw(64));
			Some(Signature::from_raw_data(&b).unwrap())
		} else {
			None
		};
		sigs.push(ParticipantDataV4 { xs, nonce, part });
	}
	let coms = if r.n() == 1 {
		let n = r.n();
		let mut v = vec![];
		for _ in 0..n {
			let f = r.n() as u8;
			let c = Commitment::from_vec(r.raw(33));
			let p = if r.n() == 1 {
				let b = r.bytes();
				let mut proof = [0u8; 675];
				proof[..b.len()].copy_from_slice(&b);
				Some(RangeProof {
					proof,
					plen: b.len(),
				})
			} else {
				None
			};
			v.push(CommitsV4 {
				f: OutputFeaturesV4(f),
				c,
				p,
			});
		}
		Some(v)
	} else {
		None
	};
	let proof = if r.n() == 1 {
		let saddr = DalekPublicKey::from_bytes(&r.raw(32)).unwrap();
		let raddr = DalekPublicKey::from_bytes(&r.raw(32)).unwrap();
		let rsig = if r.n() == 1 {
			Some(DalekSignature::try_from(&r.raw(64)[..]).unwrap())
		} else {
			None
		};
		Some(PaymentInfoV4 { saddr, raddr, rsig })
	} else {
		None
	};
	let feat_args = if r.n() == 1 {
		Some(KernelFeaturesArgsV4 { lock_hgt: r.n() })
	} else {
		None
	};
	SlateV4 {
		ver: VersionCompatInfoV4 {
			version: ver,
			block_header_version: bhv,
		},
		id: uuid::Uuid::from_bytes(idb),
		sta,
		off,
		num_parts,
		amt,
		fee: serde_json::from_str::<FeeFields>(&format!("\"{}\"", fee_raw)).unwrap(),
		feat,
		ttl,
		sigs,
		coms,
		proof,
		feat_args,
	}
}

/// the well-formedness domain of the round-trip theorems (coq: wf_slate4 /\ wf_json /\
/// wf_coms_order), decided independently on the Rust value
pub fn is_wf_v4(v: &SlateV4) -> bool {
	if v.sigs.len() > 255 {
		return false;
	}
	if let Some(cs) = &v.coms {
		if cs.len() > 65535 {
			return false;
		}
		let mut seen_output = false;
		for c in cs.iter() {
			if c.f.0 > 1 {
				return false;
			}
			match &c.p {
				Some(p) => {
					if p.plen != 675 {
						return false;
					}
					seen_output = true;
				}
				None => {
					if seen_output {
						return false; // an input after an output: not the order the wallet emits
					}
				}
			}
		}
	}
	true
}

/// the recorded wire-format finding classes, decided on the Rust value:
/// 1 feat != 2 with arguments, 2 feat == 2 without arguments, 3 fee field with fee part 0
pub fn known_classes(v: &SlateV4) -> Vec<u64> {
	let mut k = vec![];
	if v.feat != 2 && v.feat_args.is_some() {
		k.push(1);
	}
	if v.feat == 2 && v.feat_args.is_none() {
		k.push(2);
	}
	let raw = u64::from(v.fee);
	if raw != 0 && v.fee.fee() == 0 {
		k.push(3);
	}
	k
}

// ------------------------------------------------------------------ JSON text -> field map

fn opt_n(o: &mut Vec<u64>, x: Option<u64>) {
	match x {
		Some(v) => {
			o.push(1);
			o.push(v);
		}
		None => o.push(0),
	}
}
fn jnum(v: &serde_json::Value) -> Option<u64> {
	v.as_u64().or_else(|| v.as_str().and_then(|s| s.parse().ok()))
}

/// Field map of a V4 JSON document as the wallet wrote it (layout of CodecSlate.v
/// `canon_fields`): which keys are present and their decoded values. The text layer (hex,
/// uuid, state labels, "ver:bhv", compact secp signatures) is decoded here.
pub fn fields_of_json(doc: &serde_json::Value) -> Option<Vec<u64>> {
	let secp_inst = static_secp_instance();
	let secp = secp_inst.lock();
	let mut o = vec![];
	let ver = doc.get("ver")?.as_str()?;
	let mut it = ver.split(':');
	o.push(it.next()?.parse().ok()?);
	o.push(it.next()?.parse().ok()?);
	let id = uuid::Uuid::parse_str(doc.get("id")?.as_str()?).ok()?;
	craw(&mut o, id.as_bytes());
	o.push(match doc.get("sta")?.as_str()? {
		"NA" => 0,
		"S1" => 1,
		"S2" => 2,
		"S3" => 3,
		"I1" => 4,
		"I2" => 5,
		"I3" => 6,
		_ => return None,
	});
	match doc.get("off") {
		Some(x) => {
			o.push(1);
			cbytes(&mut o, &unhex(x.as_str()?));
		}
		None => o.push(0),
	}
	for k in ["num_parts", "amt", "fee", "feat", "ttl"].iter() {
		opt_n(&mut o, doc.get(*k).and_then(jnum));
	}
	let sigs = doc.get("sigs")?.as_array()?;
	o.push(sigs.len() as u64);
	for s in sigs {
		craw(&mut o, &unhex(s.get("xs")?.as_str()?));
		craw(&mut o, &unhex(s.get("nonce")?.as_str()?));
		match s.get("part") {
			Some(p) => {
				let b = unhex(p.as_str()?);
				let sig = Signature::from_compact(&secp, &b).ok()?;
				o.push(1);
				craw(&mut o, sig.as_ref());
			}
			None => o.push(0),
		}
	}
	match doc.get("coms") {
		None => o.push(0),
		Some(cs) => {
			let cs = cs.as_array()?;
			o.push(1);
			o.push(cs.len() as u64);
			for c in cs {
				opt_n(&mut o, c.get("f").and_then(jnum));
				craw(&mut o, &unhex(c.get("c")?.as_str()?));
				match c.get("p") {
					Some(p) => {
						o.push(1);
						cbytes(&mut o, &unhex(p.as_str()?));
					}
					None => o.push(0),
				}
			}
		}
	}
	match doc.get("proof") {
		None => o.push(0),
		Some(p) => {
			o.push(1);
			craw(&mut o, &unhex(p.get("saddr")?.as_str()?));
			craw(&mut o, &unhex(p.get("raddr")?.as_str()?));
			match p.get("rsig") {
				Some(s) => {
					o.push(1);
					craw(&mut o, &unhex(s.as_str()?));
				}
				None => o.push(0),
			}
		}
	}
	match doc.get("feat_args") {
		None => o.push(0),
		Some(a) => {
			o.push(1);
			o.push(jnum(a.get("lock_hgt")?)?);
		}
	}
	Some(o)
}
