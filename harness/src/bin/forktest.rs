use vharness::libwallet::api_impl::foreign;
use vharness::libwallet::BlockFees;
use vharness::scen::*;
use grin_core::core::hash::Hashed;
fn main() {
	let mut s = Scen::new("/tmp/vh_forktest");
	let a = s.add_wallet("w1", None, false);
	s.mine(a, 6);
	println!("height {}", s.node.height());
	// fork from height 4 with 4 new blocks
	let chain = s.node.chain.clone();
	let mut prev = chain.get_header_by_height(4).unwrap();
	for i in 0..4 {
		let bf = BlockFees { fees: 0, key_id: None, height: prev.height + 1 };
		let cb = s.with(a, |b, m| foreign::build_coinbase(b, m, &bf, false)).unwrap();
		let blk = s.node.try_build_block(&prev, &[], (cb.output, cb.kernel));
		match blk {
			Ok(b) => { let h = b.header.clone(); let r = s.node.process(b); println!("fork block {} -> {:?}, head {}", i, r.is_ok(), s.node.height()); prev = h; }
			Err(e) => { println!("build err {}", e); break; }
		}
	}
	println!("final height {} hash {:?}", s.node.height(), chain.head_header().unwrap().hash() == prev.hash());
}
