//! Ledger correspondence runner (C03, C04, C05, C07, C15, C17): random multi-slate
//! histories over two real LMDB wallets and a real in-process chain. For every operation
//! on a wallet it records the operation in the vocabulary of coq/theories/Ledger.v
//! (including everything the node answered), the result class and the wallet's canonical
//! snapshot afterwards, one JSON line per history.
use grin_core::core::{Committed, Transaction};
use grin_keychain::{ExtKeychain, Identifier, Keychain, SwitchCommitmentType};
use grin_util::secp::pedersen::Commitment;
use serde_json::{json, Value};
use std::collections::{BTreeMap, HashMap};
use uuid::Uuid;
use vharness::libwallet::api_impl::{foreign, owner};
use vharness::libwallet::verif_hooks::{tx as itx, updater};
use grin_util::ZeroingString;
use vharness::libwallet::{BlockFees, Error, InitTxArgs, IssueInvoiceTxArgs, OutputData, OutputStatus, Slate, SlateState, TxLogEntryType, WalletLCProvider};
use vharness::prng::{seed_from_env, Prng};
use vharness::scen::*;
use vharness::*;

struct Flight {
	invoice: bool,
	num: u64,
	id: Uuid,
	sender: usize,
	s1: Slate,
	s2: Option<Slate>,
	fin: Option<Slate>,
	posted: bool,
	/// invoice flights: the wallet whose process_invoice_tx produced [s2] (may be the issuer itself)
	payer: Option<usize>,
	/// the spending wallet reserved its inputs (tx_lock_outputs succeeded, or late lock at finalize)
	locked: bool,
	/// late-locked send (inputs are selected and reserved inside finalize)
	late: bool,
	/// the account the send spends from
	src_parent: u64,
}

struct Hist {
	s: Scen,
	p: Prng,
	flights: Vec<Flight>,
	slate_nums: HashMap<Uuid, u64>,
	steps: [Vec<Value>; 2],
	profile: String,
	mined: Vec<(u64, Transaction)>,
	/// per wallet: a transaction spending its outputs was broadcast although the wallet never reserved them
	unreserved_spend: [bool; 2],
	/// per wallet: every output its seed ever recorded (commit hex -> key, value, coinbase): what a
	/// scan of the chain can find for that seed
	known: [BTreeMap<String, ((u64, u64), u64, bool)>; 2],
	restores: u64,
	/// set by a directed episode: the next init_send is (not) late-locked, uses all outputs, small amount
	force_late: Option<bool>,
	/// set by a directed episode: the next cancel names this slate
	force_cancel: Option<Uuid>,
	force_direct: bool,
	force_scan_del: bool,
	late_done: bool,
	/// (amount, amount_includes_fee, ttl_blocks): a send with exactly these, from the active account,
	/// smallest outputs first, one change output, not late-locked
	force_init: Option<(u64, bool, Option<u64>, bool)>,
}

fn acct_name(a: u64) -> Option<&'static str> {
	match a {
		0 => Some("default"),
		1 => Some("account_1"),
		_ => None,
	}
}

thread_local! {
	static LAST_ERR: std::cell::RefCell<Option<String>> = std::cell::RefCell::new(None);
}
fn rc_of<T>(r: &Result<Result<T, Error>, String>) -> Vec<u64> {
	match r {
		Err(m) => {
			LAST_ERR.with(|l| *l.borrow_mut() = Some(format!("panic: {}", m)));
			vec![2]
		}
		Ok(Err(e)) => {
			LAST_ERR.with(|l| *l.borrow_mut() = Some(format!("{:?}", e)));
			vec![1, err_class(e)]
		}
		Ok(Ok(_)) => {
			LAST_ERR.with(|l| *l.borrow_mut() = None);
			vec![0]
		}
	}
}

impl Hist {
	fn slate_num(&mut self, id: Uuid) -> u64 {
		let n = self.slate_nums.len() as u64;
		*self.slate_nums.entry(id).or_insert(n)
	}
	/// Everything the node would answer about wallet i's records right now.
	fn node_view(&self, i: usize) -> Value {
		let chain = self.s.node.chain.clone();
		let tip = self.s.node.height();
		self.s.with(i, |b, _| {
			let mut presence = vec![];
			for o in b.iter() {
				if let Some(c) = &o.commit {
					let commit = Commitment::from_vec(grin_util::from_hex(c).unwrap());
					if chain.get_unspent(commit).unwrap().is_some() {
						let h = chain.get_header_for_output(commit).unwrap().height;
						let (a, c) = key_pair(&o.key_id);
						presence.push(json!([a, c, o.mmr_index, h]));
					}
				}
			}
			let mut missing = vec![];
			for t in b.tx_log_iter() {
				if let Some(e) = t.kernel_excess {
					if chain
						.get_kernel_height(&e, t.kernel_lookup_min_height, None)
						.unwrap()
						.is_none()
					{
						missing.push(json!([key_pair(&t.parent_key_id).0, t.id]));
					}
				}
			}
			json!({"tip": tip, "presence": presence, "kernel_missing": missing})
		})
	}
	fn contexts(&self, i: usize) -> Vec<u64> {
		let mut v = vec![];
		for (id, n) in &self.slate_nums {
			let has = self
				.s
				.with(i, |b, m| b.get_private_context(m, id.as_bytes()).is_ok());
			if has {
				v.push(*n);
			}
		}
		v.sort();
		v
	}
	fn record(&mut self, i: usize, op: Value, rc: Vec<u64>, extra: Value) {
		let mut extra = extra;
		if let Some(m) = LAST_ERR.with(|l| l.borrow_mut().take()) {
			if rc != vec![0] {
				extra["err"] = json!(m);
			}
		}
		self.learn(i);
		let mut snap = self.s.snapshot(i);
		// replace slate uuids by their numbers
		if let Some(txs) = snap["txs"].as_array_mut() {
			for t in txs {
				if let Some(s) = t["slate"].as_str() {
					let u = Uuid::parse_str(s).unwrap();
					let n = self.slate_nums.get(&u).cloned();
					t["slate"] = json!(n);
				}
			}
		}
		snap["contexts"] = json!(self.contexts(i));
		let infos: Vec<Value> = [0u64, 1, 3]
			.iter()
			.map(|mc| {
				let r = guarded(|| {
					self.s.with(i, |b, _| {
						let pk = b.parent_key_id();
						updater::retrieve_info(b, &pk, *mc)
					})
				});
				match r {
					Ok(Ok(wi)) => json!([mc, wi.amount_currently_spendable.to_string(), wi.amount_immature.to_string(),
						wi.amount_awaiting_confirmation.to_string(), wi.amount_awaiting_finalization.to_string(),
						wi.amount_locked.to_string(), wi.amount_reverted.to_string(), wi.total.to_string(),
						wi.last_confirmed_height]),
					Ok(Err(_)) => json!([mc, "err"]),
					Err(_) => json!([mc, "panic"]),
				}
			})
			.collect();
		snap["info"] = json!(infos);
		self.steps[i].push(json!({"op": op, "rc": rc, "snap": snap, "extra": extra}));
	}
	fn learn(&mut self, i: usize) {
		let outs: Vec<OutputData> = self.s.with(i, |b, _| b.iter().collect());
		for o in outs {
			if let Some(c) = &o.commit {
				self.known[i]
					.entry(c.clone())
					.or_insert((key_pair(&o.key_id), o.value, o.is_coinbase));
			}
		}
		// the change outputs a stored context promises: they reach the chain when the counterparty
		// broadcasts the transaction, whether or not this wallet ever reserved (and so recorded) them
		let ids: Vec<Uuid> = self.slate_nums.keys().cloned().collect();
		for id in ids {
			let found: Vec<(String, (u64, u64), u64)> = self.s.with(i, |b, m| {
				let mut v = vec![];
				if let Ok(c) = b.get_private_context(m, id.as_bytes()) {
					if let Ok(kc) = b.keychain(m) {
						for (kid, _, amount) in c.get_outputs() {
							if let Ok(commit) = kc.commit(amount, &kid, SwitchCommitmentType::Regular) {
								v.push((grin_util::ToHex::to_hex(&commit.0.to_vec()), key_pair(&kid), amount));
							}
						}
					}
				}
				v
			});
			for (c, key, amount) in found {
				self.known[i].entry(c).or_insert((key, amount, false));
			}
		}
	}
	/// the outputs of wallet i's seed currently in the UTXO set, in PMMR order (what a scan finds)
	fn chain_outs(&self, i: usize) -> Value {
		let chain = &self.s.node.chain;
		let mut v = vec![];
		for (c, (key, value, cb)) in &self.known[i] {
			let commit = Commitment::from_vec(grin_util::from_hex(c).unwrap());
			if let Some((_, pos)) = chain.get_unspent(commit).unwrap() {
				let lock = if *cb { pos.height + 3 } else { pos.height };
				v.push((
					pos.pos,
					json!({"key": [key.0, key.1], "value": value.to_string(), "height": pos.height,
						"lock": lock, "cb": cb, "mmr": pos.pos}),
				));
			}
		}
		v.sort_by_key(|x| x.0);
		json!(v.into_iter().map(|x| x.1).collect::<Vec<_>>())
	}
	/// The wallet is lost and restored from its recovery phrase: a new database, then owner::scan.
	/// Contexts, log and stored transactions are gone; the outputs on chain come back.
	fn restore(&mut self, i: usize) {
		self.learn(i);
		let phrase: String = {
			let mut l = self.s.wallets[i].inst.lock();
			let lc = l.lc_provider().unwrap();
			(&*lc.get_mnemonic(None, ZeroingString::from("")).unwrap()).to_owned()
		};
		self.restores += 1;
		// the new database knows nothing of the reservations of the old one: a transaction of this wallet
		// that is finalized but not yet in the chain will spend outputs the restored wallet never reserved
		{
			let chain = self.s.node.chain.clone();
			let mut spends_unreserved = false;
			for fl in self.flights.iter_mut() {
				let spender = if fl.invoice { fl.payer.unwrap_or(1 - fl.sender) } else { fl.sender };
				if spender != i {
					continue;
				}
				let on_chain = match fl.fin.as_ref().and_then(|f| f.tx.as_ref()) {
					Some(tx) => matches!(chain.get_kernel_height(&tx.kernels()[0].excess, None, None), Ok(Some(_))),
					None => false,
				};
				if !on_chain {
					// (a reservation, a signed reply or a finalized transaction of the old database: whatever
					// completes it later spends outputs the new database never reserved)
					if fl.locked || fl.s2.is_some() || fl.fin.is_some() {
						spends_unreserved = true;
					}
					fl.locked = false;
					if fl.fin.is_some() {
						fl.late = false;
					}
				}
			}
			if spends_unreserved {
				self.unreserved_spend[i] = true;
			}
		}
		let name = format!("w{}_r{}", i, self.restores);
		let c = self.s.add_wallet(&name, Some(&phrase), false);
		self.s.wallets.swap(i, c);
		self.s.wallets.truncate(2);
		let chain = self.chain_outs(i);
		let view = self.node_view(i);
		let res = guarded(|| owner::scan(self.s.wallets[i].inst.clone(), None, None, false, &None));
		let rc = rc_of(&res);
		// the second account exists again under its usual label (scan names it when it finds outputs)
		let _ = self.s.with(i, |b, m| owner::create_account_path(b, m, "account_1"));
		self.record(i, json!({"k": "restore", "chain": chain, "parent": 0, "view": view}), rc, json!({}));
	}
	/// owner::scan of the existing wallet from the first block (check / repair)
	fn scan(&mut self, i: usize) {
		self.learn(i);
		let del = self.p.chance(1, 3) || self.force_scan_del;
		let chain = self.chain_outs(i);
		let view = self.node_view(i);
		let parent = self.active(i);
		// one scan in six meets a node whose output query fails: the scan has no refreshed view of the
		// wallet to repair from and must say so
		let outage = self.p.chance(1, 6);
		if outage {
			self.s.node.fail_outputs.store(true, std::sync::atomic::Ordering::Relaxed);
		}
		let res = guarded(|| owner::scan(self.s.wallets[i].inst.clone(), None, Some(1), del, &None));
		let rc = rc_of(&res);
		if outage {
			self.s.node.fail_outputs.store(false, std::sync::atomic::Ordering::Relaxed);
			self.record(
				i,
				json!({"k": "scan", "del": del, "parent": parent, "outage": true, "rc": rc}),
				rc.clone(),
				json!({"nomodel": rc == vec![0]}),
			);
			return;
		}
		self.record(i, json!({"k": "scan", "chain": chain, "del": del, "parent": parent, "view": view}), rc, json!({}));
	}
	fn record_with(&mut self, i: usize, op: Value, rc: Vec<u64>, extra: Value) {
		self.record(i, op, rc, extra)
	}
	fn active(&self, i: usize) -> u64 {
		self.s.with(i, |b, _| key_pair(&b.parent_key_id()).0)
	}

	// ---------------------------------------------------------------- operations
	fn mine(&mut self, i: usize, with_pool: bool) {
		let txs: Vec<Transaction> = if with_pool {
			self.s.node.pool.lock().drain(..).collect()
		} else {
			vec![]
		};
		let prev = self.s.node.chain.head_header().unwrap();
		let fees: u64 = txs.iter().map(|t| t.fee()).sum();
		let bf = BlockFees {
			fees,
			key_id: None,
			height: prev.height + 1,
		};
		let r = guarded(|| self.s.with(i, |b, m| foreign::build_coinbase(b, m, &bf, false)));
		let rc = rc_of(&r);
		self.record(
			i,
			json!({"k": "coinbase", "fees": fees.to_string(), "height": bf.height, "key": null}),
			rc,
			json!({"foreign": true}),
		);
		if let Ok(Ok(cb)) = r {
			let ok = match self
				.s
				.node
				.try_build_block(&prev, &txs, (cb.output, cb.kernel))
			{
				Ok(block) => self.s.node.process(block).is_ok(),
				Err(_) => false,
			};
			if ok {
				for t in &txs {
					self.mined.push((prev.height + 1, t.clone()));
				}
			}
			if !ok {
				// invalid pool content (e.g. double spend): mine an empty block instead
				let bf2 = BlockFees {
					fees: 0,
					key_id: None,
					height: prev.height + 1,
				};
				let cb2 = self
					.s
					.with(i, |b, m| foreign::build_coinbase(b, m, &bf2, false))
					.unwrap();
				self.record(
					i,
					json!({"k": "coinbase", "fees": "0", "height": bf2.height, "key": null}),
					vec![0],
					json!({"foreign": true, "pool_rejected": true}),
				);
				let block = self.s.node.build_block(&prev, &[], (cb2.output, cb2.kernel));
				self.s.node.process(block).unwrap();
			}
		}
	}
	fn refresh(&mut self, i: usize, update_all: bool) {
		let view = self.node_view(i);
		let parent = self.active(i);
		// one refresh in twelve meets a node whose output query fails: nothing may change
		let outage = self.p.chance(1, 12);
		if outage {
			self.s.node.fail_outputs.store(true, std::sync::atomic::Ordering::Relaxed);
		}
		let r = guarded(|| {
			self.s.with(i, |b, m| {
				let pk = b.parent_key_id();
				updater::refresh_outputs(b, m, &pk, update_all)
			})
		});
		let rc = rc_of(&r);
		if outage {
			self.s.node.fail_outputs.store(false, std::sync::atomic::Ordering::Relaxed);
			self.record(
				i,
				json!({"k": "refresh", "parent": parent, "all": update_all, "view": view, "outage": true, "rc": rc}),
				rc.clone(),
				json!({}),
			);
			return;
		}
		let truth = self.chain_truth(i);
		self.record(
			i,
			json!({"k": "refresh", "parent": parent, "all": update_all, "view": view}),
			rc,
			json!({"truth": truth, "unreserved_spend": self.unreserved_spend[i]}),
		);
	}
	/// for the C04 oracle: for each record of wallet i, is its commitment in the UTXO set
	fn chain_truth(&self, i: usize) -> Value {
		let chain = self.s.node.chain.clone();
		self.s.with(i, |b, _| {
			let mut v = vec![];
			for o in b.iter() {
				if let Some(c) = &o.commit {
					let commit = Commitment::from_vec(grin_util::from_hex(c).unwrap());
					let (a, ch) = key_pair(&o.key_id);
					v.push(json!([a, ch, o.mmr_index, chain.get_unspent(commit).unwrap().is_some()]));
				}
			}
			json!(v)
		})
	}
	fn set_active(&mut self, i: usize, a: u64) {
		let name = acct_name(a).unwrap();
		self.s.with(i, |b, _| owner::set_active_account(b, name)).unwrap();
		self.record(i, json!({"k": "set_active", "a": a}), vec![0], json!({}));
	}
	fn init_send(&mut self, i: usize) {
		let tip = self.s.node.height();
		let active = self.active(i);
		let fi = self.force_init.take();
		let src: Option<u64> = if fi.is_none() && self.p.chance(2, 5) {
			Some(self.p.below(2))
		} else {
			None
		};
		let parent = src.unwrap_or(active);
		// balance-relative amounts
		let spendable: u64 = self.s.with(i, |b, _| {
			b.iter()
				.filter(|o| key_pair(&o.root_key_id).0 == parent && o.eligible_to_spend(tip, 1))
				.map(|o| o.value)
				.sum()
		});
		let amount = match self.p.below(10) {
			0 => 1,
			1 => spendable,
			2 => spendable.saturating_sub(12_500_000 + self.p.below(40_000_000)),
			3 => spendable.saturating_add(1),
			4 | 5 => self.p.range(1, 30_000_000_000),
			_ => self.p.below(spendable.max(2) / 2).max(1),
		};
		let forced = self.force_late.take();
		let late = forced.unwrap_or_else(|| self.p.chance(1, 6));
		let amount = if forced == Some(true) { self.p.range(1, 5_000_000_000) } else { amount };
		let args = InitTxArgs {
			src_acct_name: src.and_then(acct_name).map(|s| s.to_owned()),
			amount,
			amount_includes_fee: if self.p.chance(1, 5) { Some(true) } else { None },
			minimum_confirmations: *self.p.pick(&[0u64, 1, 1, 1, 2, 3]),
			max_outputs: *self.p.pick(&[500u32, 500, 500, 2, 1]),
			num_change_outputs: *self.p.pick(&[1u32, 1, 1, 2, 3, 0]),
			selection_strategy_is_use_all: forced == Some(true) || self.p.coin(),
			ttl_blocks: if self.p.chance(1, 4) {
				// (one in ten of them beyond the end of the chain)
				if self.p.chance(1, 10) { Some(u64::MAX) } else { Some(self.p.range(1, 4)) }
			} else {
				None
			},
			late_lock: Some(late),
			..Default::default()
		};
		let (args, late, amount) = match fi {
			Some((amt, aif, ttl, use_all)) => (
				InitTxArgs {
					src_acct_name: None,
					amount: amt,
					amount_includes_fee: if aif { Some(true) } else { None },
					minimum_confirmations: 1,
					max_outputs: 500,
					num_change_outputs: 1,
					selection_strategy_is_use_all: use_all,
					ttl_blocks: ttl,
					late_lock: Some(false),
					..Default::default()
				},
				false,
				amt,
			),
			None => (args, late, amount),
		};
		let view = self.node_view(i);
		let a2 = args.clone();
		let r = guarded(|| self.s.with(i, |b, m| owner::init_send_tx(b, m, a2, false)));
		let rc = rc_of(&r);
		let mut num = json!(null);
		if let Ok(Ok(sl)) = &r {
			let n = self.slate_num(sl.id);
			num = json!(n);
			self.flights.push(Flight {
				invoice: false,
				num: n,
				id: sl.id,
				sender: i,
				// (what the counterparty gets is the V4 wire form of the slate)
				s1: wire(sl),
				s2: None,
				fin: None,
				posted: false,
				payer: None,
				locked: false,
				late,
				src_parent: parent,
			});
		}
		let aif = args.amount_includes_fee.unwrap_or(false);
		// what the new context promises to spend (for the "selection only takes spendable outputs" oracles)
		let sel_inputs: Value = match &r {
			Ok(Ok(sl)) => self.s.with(i, |b, m| match b.get_private_context(m, sl.id.as_bytes()) {
				Ok(c) => json!(c
					.get_inputs()
					.iter()
					.map(|(k, mmr, v)| {
						let (a, ch) = key_pair(k);
						json!([a, ch, mmr, v.to_string()])
					})
					.collect::<Vec<_>>()),
				Err(_) => json!(null),
			}),
			_ => json!(null),
		};
		self.record_with(
			i,
			json!({"k": "init_send", "slate": num, "src": src, "parent": parent, "view": view, "late": late,
				"p": {"amount": amount.to_string(), "aif": aif, "h": tip, "minconf": args.minimum_confirmations,
					"max_outputs": args.max_outputs, "change_outputs": args.num_change_outputs,
					"all": args.selection_strategy_is_use_all}}),
			rc,
			json!({"sel_inputs": sel_inputs}),
		);
	}
	/// Invoice flow. In an invoice flight `sender` is the ISSUER (payee); s1 = the invoice,
	/// s2 = the payer's Invoice2 reply, fin = the issuer's finalized slate.
	fn issue_invoice(&mut self, i: usize) {
		let tip = self.s.node.height();
		let dest: Option<u64> = if self.p.chance(1, 4) { Some(self.p.below(2)) } else { None };
		let amount = match self.p.below(6) {
			0 => 1,
			1 => self.p.range(1, 200_000_000_000),
			_ => self.p.range(1_000_000, 40_000_000_000),
		};
		let args = IssueInvoiceTxArgs {
			dest_acct_name: dest.and_then(acct_name).map(|s| s.to_owned()),
			amount,
			target_slate_version: None,
		};
		let r = guarded(|| self.s.with(i, |b, m| owner::issue_invoice_tx(b, m, args, false)));
		let rc = rc_of(&r);
		let mut num = json!(null);
		if let Ok(Ok(sl)) = &r {
			let n = self.slate_num(sl.id);
			num = json!(n);
			self.flights.push(Flight {
				invoice: true,
				num: n,
				id: sl.id,
				sender: i,
				// (what the counterparty gets is the V4 wire form of the slate)
				s1: wire(sl),
				s2: None,
				fin: None,
				posted: false,
				payer: None,
				locked: false,
				late: false,
				src_parent: 0,
			});
		}
		self.record(
			i,
			json!({"k": "issue_invoice", "slate": num, "amount": amount.to_string(), "tip": tip, "dest": dest}),
			rc,
			json!({}),
		);
	}
	fn process_invoice(&mut self, f: usize) {
		let (issuer, s1, num) = {
			let fl = &self.flights[f];
			(fl.sender, fl.s1.clone(), fl.num)
		};
		let payer = if self.p.chance(1, 6) { issuer } else { 1 - issuer };
		let tip = self.s.node.height();
		let active = self.active(payer);
		let src: Option<u64> = if self.p.chance(1, 3) { Some(self.p.below(2)) } else { None };
		let parent = src.unwrap_or(active);
		let mut s1 = s1;
		if self.p.chance(1, 10) {
			s1.ttl_cutoff_height = self.p.below(tip + 3);
		}
		let args = InitTxArgs {
			src_acct_name: src.and_then(acct_name).map(|s| s.to_owned()),
			amount: s1.amount,
			minimum_confirmations: *self.p.pick(&[0u64, 1, 1, 1, 2]),
			max_outputs: *self.p.pick(&[500u32, 500, 2]),
			num_change_outputs: *self.p.pick(&[1u32, 1, 2, 3]),
			selection_strategy_is_use_all: self.p.coin(),
			ttl_blocks: if self.p.chance(1, 3) { Some(self.p.range(1, 4)) } else { None },
			..Default::default()
		};
		let view = self.node_view(payer);
		let a2 = args.clone();
		let r = guarded(|| self.s.with(payer, |b, m| owner::process_invoice_tx(b, m, &s1, a2, false)));
		let rc = rc_of(&r);
		if let Ok(Ok(s2)) = &r {
			self.flights[f].s2 = Some(wire(s2));
			self.flights[f].payer = Some(payer);
		}
		self.record(
			payer,
			json!({"k": "process_invoice", "slate": num, "ttl": s1.ttl_cutoff_height, "src": src, "parent": parent,
				"view": view,
				"p": {"amount": s1.amount.to_string(), "aif": false, "h": tip, "minconf": args.minimum_confirmations,
					"max_outputs": args.max_outputs, "change_outputs": args.num_change_outputs,
					"all": args.selection_strategy_is_use_all}}),
			rc,
			json!({}),
		);
	}
	fn finalize_invoice(&mut self, f: usize) {
		let (issuer, s2, num) = {
			let fl = &self.flights[f];
			(fl.sender, fl.s2.clone(), fl.num)
		};
		let s2 = match s2 {
			Some(s) => s,
			None => return,
		};
		let via_foreign = self.p.coin();
		let r = guarded(|| {
			self.s.with(issuer, |b, m| {
				if via_foreign {
					foreign::finalize_tx(b, m, &s2, false)
				} else {
					owner::finalize_tx(b, m, &s2)
				}
			})
		});
		let rc = rc_of(&r);
		// (signature, kernel-sum and fee checks of slate.finalize are the "crypto verdict")
		let crypto_ok = !(rc.len() == 2 && (rc[1] == 17 || rc[1] == 3));
		if let Ok(Ok(fin)) = &r {
			self.flights[f].fin = Some(fin.clone());
		}
		self.record(
			issuer,
			json!({"k": "finalize_invoice", "slate": num, "ttl": s2.ttl_cutoff_height, "crypto_ok": crypto_ok}),
			rc,
			json!({"foreign": via_foreign, "invoice": true}),
		);
	}

	/// What the issuer of a paid invoice can send to the PAYER's foreign API: the invoice's id dressed
	/// up as the reply to a standard send (state Standard2), carrying the issuer's own signature data,
	/// output and share of the offset. The payer initiated nothing; its stored context is that of a
	/// payment it has already signed.
	fn relabelled_invoice_to_payer(&mut self, f: usize) {
		let (issuer, payer, inv1, inv2, inv3, num) = {
			let fl = &self.flights[f];
			match (fl.payer, fl.s2.clone(), fl.fin.clone()) {
				(Some(p), Some(s2), Some(fin)) if p != fl.sender => (fl.sender, p, fl.s1.clone(), s2, fin, fl.num),
				_ => return,
			}
		};
		let _ = issuer;
		let payer_entry = match inv2.participant_data.get(0) {
			Some(p) => p.clone(),
			None => return,
		};
		let issuer_entry = match inv3.participant_data.iter().find(|p| {
			p.public_nonce != payer_entry.public_nonce || p.public_blind_excess != payer_entry.public_blind_excess
		}) {
			Some(p) => p.clone(),
			None => return,
		};
		let (tx2, tx3) = match (inv2.tx.as_ref(), inv3.tx.as_ref()) {
			(Some(a), Some(b)) => (a, b),
			_ => return,
		};
		let issuer_output = match tx3.outputs().iter().find(|o| !tx2.outputs().iter().any(|p| p.commitment() == o.commitment())) {
			Some(o) => o.clone(),
			None => return,
		};
		let kc = ExtKeychain::from_random_seed(true).unwrap();
		let issuer_offset = match kc.blind_sum(
			&grin_keychain::BlindSum::new()
				.add_blinding_factor(inv3.offset.clone())
				.sub_blinding_factor(inv2.offset.clone())
				.add_blinding_factor(inv1.offset.clone()),
		) {
			Ok(o) => o,
			Err(_) => return,
		};
		let mut forged = Slate::blank(2, false);
		forged.id = inv2.id;
		forged.state = SlateState::Standard2;
		forged.version_info = inv2.version_info.clone();
		forged.participant_data = vec![issuer_entry];
		forged.offset = issuer_offset;
		forged.tx = Some(Slate::empty_transaction().with_output(issuer_output));
		let tip = self.s.node.height();
		// does the payer's stored context belong to a transaction it initiated?
		let initiated = self.s.with(payer, |b, m| {
			b.get_private_context(m, forged.id.as_bytes()).map(|c| c.calculated_excess.is_none()).unwrap_or(true)
		});
		let r = guarded(|| self.s.with(payer, |b, m| foreign::finalize_tx(b, m, &forged, false)));
		let rc = rc_of(&r);
		self.record(
			payer,
			json!({"k": "finalize", "slate": num, "ttl": forged.ttl_cutoff_height, "tip": tip,
				"state_ok": initiated, "crypto_ok": true}),
			rc,
			json!({"tx_inputs": null, "foreign": true, "forged": true, "relabelled_invoice": true}),
		);
	}

	fn pick_flight(&mut self) -> Option<usize> {
		if self.flights.is_empty() {
			None
		} else {
			Some(self.p.below(self.flights.len() as u64) as usize)
		}
	}
	fn receive(&mut self, f: usize) {
		if self.flights[f].invoice {
			return self.process_invoice(f);
		}
		let (sender, s1, num) = {
			let fl = &self.flights[f];
			(fl.sender, fl.s1.clone(), fl.num)
		};
		let r_i = if self.p.chance(1, 8) { sender } else { 1 - sender };
		let dest: Option<u64> = if self.p.chance(1, 4) {
			Some(self.p.below(2))
		} else {
			None
		};
		let dest_name = dest.and_then(acct_name);
		// a peer may put any amount / cutoff in the slate it delivers
		let mut s1 = s1;
		let tampered = self.p.chance(if self.profile == "c07" { 2 } else { 1 }, 8);
		if tampered {
			match self.p.below(4) {
				0 => s1.amount = 0,
				1 => s1.amount = u64::MAX,
				2 => s1.amount = s1.amount.wrapping_add(self.p.range(1, 1000)),
				_ => s1.ttl_cutoff_height = self.p.below(self.s.node.height() + 3),
			}
		}
		// one delivery in six comes through the listener's API object with a return address of the caller's
		// choosing (JSON-RPC receive_tx, third parameter): junk, nothing, or a well-formed address the wallet has
		// no way to reach — the reply is the slate all the same
		let via_api = self.p.chance(1, 6);
		let r = if via_api {
			let ret_addr: Option<String> = match self.p.below(3) {
				0 => Some("x".to_owned()),
				1 => Some(String::new()),
				_ => {
					let (ainst, amask) = (self.s.wallets[sender].inst.clone(), self.s.wallets[sender].mask.clone());
					let a = guarded(|| owner::get_slatepack_address(ainst, amask.as_ref(), 0).map(|a| a.to_string()));
					match a {
						Ok(Ok(s)) => Some(s),
						_ => Some("x".to_owned()),
					}
				}
			};
			let inst = self.s.wallets[r_i].inst.clone();
			let mask = self.s.wallets[r_i].mask.clone();
			guarded(|| {
				let api = vharness::api::Foreign::new(inst, mask, None, false);
				api.receive_tx(&s1, dest_name, ret_addr)
			})
		} else {
			guarded(|| self.s.with(r_i, |b, m| foreign::receive_tx(b, m, &s1, dest_name, false)))
		};
		let rc = rc_of(&r);
		let crypto_ok = !(rc.len() == 2 && rc[1] == 17);
		if let Ok(Ok(s2)) = &r {
			// (a self-send, delivered to the sending wallet itself, is a complete exchange too)
			if !tampered {
				self.flights[f].s2 = Some(wire(s2));
			}
		}
		let reply_parts = match &r {
			Ok(Ok(s2)) => s2.participant_data.len() as i64,
			_ => -1,
		};
		self.record(
			r_i,
			json!({"k": "receive", "slate": num, "amount": s1.amount.to_string(), "ttl": s1.ttl_cutoff_height,
				"dest": dest, "crypto_ok": crypto_ok}),
			rc,
			json!({"foreign": true, "reply_participants": reply_parts, "tampered": tampered, "via_api": via_api}),
		);
	}
	fn lock(&mut self, f: usize) {
		let (sender, sl, num) = {
			let fl = &self.flights[f];
			(
				// in an invoice flight the payer reserves (normally the other wallet; the issuer
				// itself when it paid its own invoice)
				if fl.invoice { fl.payer.unwrap_or(1 - fl.sender) } else { fl.sender },
				fl.s2.clone().unwrap_or_else(|| fl.s1.clone()),
				fl.num,
			)
		};
		let who = if self.p.chance(1, 15) { 1 - sender } else { sender };
		let tip = self.s.node.height();
		// the inputs the context names (for the exclusivity oracle)
		let ctx_inputs: Value = self.s.with(who, |b, m| {
			match b.get_private_context(m, sl.id.as_bytes()) {
				Ok(c) => json!(c
					.get_inputs()
					.iter()
					.map(|(k, mmr, v)| {
						let (a, ch) = key_pair(k);
						json!([a, ch, mmr, v.to_string()])
					})
					.collect::<Vec<_>>()),
				Err(_) => json!(null),
			}
		});
		let r = guarded(|| self.s.with(who, |b, m| owner::tx_lock_outputs(b, m, &sl)));
		let rc = rc_of(&r);
		if rc == vec![0] && who == sender {
			self.flights[f].locked = true;
		}
		self.record(
			who,
			json!({"k": "lock", "slate": num, "ttl": sl.ttl_cutoff_height, "tip": tip, "has_tx": sl.tx.is_some()}),
			rc,
			json!({"ctx_inputs": ctx_inputs}),
		);
	}
	fn finalize(&mut self, f: usize) {
		if self.flights[f].invoice {
			return self.finalize_invoice(f);
		}
		let (sender, s2, num) = {
			let fl = &self.flights[f];
			(fl.sender, fl.s2.clone(), fl.num)
		};
		let s2 = match s2 {
			Some(s) => s,
			None => return,
		};
		let tip = self.s.node.height();
		let via_foreign = self.p.chance(1, 4);
		// sometimes the reply is not validly counter-signed (forged / tampered by a peer)
		let forged = self.p.chance(if self.profile == "c07" { 2 } else { 1 }, 6);
		let mut s2 = s2;
		if forged {
			match self.p.below(3) {
				0 => {
					// swap the recipient's partial signature for the sender's own (invalid for that key)
					let other = s2.participant_data.len() - 1;
					let first = s2.participant_data[0].part_sig.clone();
					if s2.participant_data[other].part_sig.is_some() && first.is_some() && other != 0 {
						s2.participant_data[other].part_sig = first;
					} else {
						s2.participant_data[other].part_sig = None;
					}
				}
				1 => {
					// drop the recipient's signature
					for pd in s2.participant_data.iter_mut() {
						pd.part_sig = None;
					}
				}
				_ => {
					// replace the recipient's public nonce by its public excess
					let other = s2.participant_data.len() - 1;
					s2.participant_data[other].public_nonce = s2.participant_data[other].public_blind_excess;
				}
			}
		}
		let r = guarded(|| {
			self.s.with(sender, |b, m| {
				if via_foreign {
					foreign::finalize_tx(b, m, &s2, false)
				} else {
					owner::finalize_tx(b, m, &s2)
				}
			})
		});
		let rc = rc_of(&r);
		let crypto_ok = !(rc.len() == 2 && (rc[1] == 17 || rc[1] == 21 && forged));
		let mut tx_inputs = json!(null);
		if let Ok(Ok(fin)) = &r {
			self.flights[f].fin = Some(fin.clone());
			// map the final transaction's inputs back to the sender's records
			let commits: Vec<String> = fin
				.tx_or_err()
				.unwrap()
				.inputs_committed()
				.iter()
				.map(|c| grin_util::ToHex::to_hex(&c.0.to_vec()))
				.collect();
			tx_inputs = self.s.with(sender, |b, _| {
				let mut v = vec![];
				for o in b.iter() {
					if let Some(c) = &o.commit {
						if commits.contains(c) {
							let (a, ch) = key_pair(&o.key_id);
							v.push(json!([a, ch, o.mmr_index]));
						}
					}
				}
				json!({"n": commits.len(), "keys": v})
			});
		}
		self.record(
			sender,
			json!({"k": "finalize", "slate": num, "ttl": s2.ttl_cutoff_height, "tip": tip,
				"state_ok": s2.state == SlateState::Standard2, "crypto_ok": crypto_ok}),
			rc,
			json!({"tx_inputs": tx_inputs, "foreign": via_foreign, "forged": forged}),
		);
	}
	fn post(&mut self, f: usize) {
		if let Some(fin) = self.flights[f].fin.clone() {
			if !self.flights[f].posted || self.p.chance(1, 5) {
				let c = self.s.node.client();
				let _ = owner::post_tx(&c, fin.tx_or_err().unwrap(), false);
				self.flights[f].posted = true;
				// who spends: the payer of an invoice, the sender otherwise; a late-locked send
				// reserves inside finalize
				let fl = &self.flights[f];
				let spender = if fl.invoice { fl.payer.unwrap_or(1 - fl.sender) } else { fl.sender };
				let late = fl.late;
				if !fl.locked && !late {
					self.unreserved_spend[spender] = true;
				}
			}
		}
	}
	fn cancel(&mut self, i: usize) {
		// by log id, by slate id of a flight, or something that does not exist
		let forced = self.force_cancel.is_some();
		let (id, slate): (Option<u32>, Option<Uuid>) = match self.p.below(7) {
			_ if self.force_cancel.is_some() => (None, self.force_cancel.take()),
			// both identifiers: they must name the same entry (a log id with the slate id of that very
			// entry, of another flight, or of nothing)
			5 | 6 => {
				let entries: Vec<(u32, Option<Uuid>)> = self.s.with(i, |b, _| {
					let pk = b.parent_key_id();
					b.tx_log_iter().filter(|t| t.parent_key_id == pk).map(|t| (t.id, t.tx_slate_id)).collect()
				});
				if entries.is_empty() {
					(Some(0), Some(Uuid::from_bytes([9u8; 16])))
				} else {
					let (tid, own) = entries[self.p.below(entries.len() as u64) as usize];
					let sl = match self.p.below(4) {
						0 => own.or(Some(Uuid::from_bytes([9u8; 16]))),
						1 => Some(Uuid::from_bytes([9u8; 16])),
						_ => match self.pick_flight() {
							Some(f) => Some(self.flights[f].id),
							None => Some(Uuid::from_bytes([9u8; 16])),
						},
					};
					(Some(tid), sl)
				}
			}
			0 | 1 => {
				let n = self.s.with(i, |b, _| b.tx_log_iter().count()) as u64;
				(Some(self.p.below(n + 2) as u32), None)
			}
			2 | 3 => match self.pick_flight() {
				Some(f) => (None, Some(self.flights[f].id)),
				None => (Some(0), None),
			},
			_ => (None, Some(Uuid::from_bytes([9u8; 16]))),
		};
		// one cancel in fourteen names no transaction at all
		let (id, slate) = if !forced && !self.force_direct && self.p.chance(1, 14) { (None, None) } else { (id, slate) };
		if id.is_none() && slate.is_none() {
			let r = guarded(|| {
				self.s.with(i, |b, m| {
					let pk = b.parent_key_id();
					itx::cancel_tx(b, m, &pk, None, None)
				})
			});
			let rc = rc_of(&r);
			// (a call that must be refused before it touches the wallet)
			self.record(i, json!({"k": "cancel", "id": null, "slate": null, "outage": true, "names_nothing": true, "rc": [1, 9]}),
				rc, json!({}));
			return;
		}
		let snum = slate.map(|u| self.slate_nums.get(&u).cloned().unwrap_or(999_999));
		let via_owner = (self.force_direct || self.p.chance(1, 2)) && self.s.node.height() < 100;
		// one owner-level cancel in three is the first call to meet the node since the last change of
		// the chain (no separate update before it): its own refresh then decides what can be cancelled
		let direct = via_owner && (self.force_direct || self.p.chance(1, 3));
		if via_owner && (direct || self.update_state(i)) {
			// the owner API call: update_wallet_state first, then the cancel proper. (The state was
			// brought up to date by the separate update just recorded, so an error of this call is
			// the cancel's own refusal and not one of the update part's.)
			self.learn(i);
			let tip = self.s.node.height();
			let view = self.node_view(i);
			let chain = self.chain_outs(i);
			let parent = self.active(i);
			let inst = self.s.wallets[i].inst.clone();
			let mask = self.s.wallets[i].mask.clone();
			let target_mined = self.target_mined(i, id, slate);
			let r = guarded(|| owner::cancel_tx(inst, mask.as_ref(), &None, id, slate));
			let rc = rc_of(&r);
			// (an error other than a refusal of the cancel itself comes from the update part and is not
			// followed; since the fix of the TTL step the update part has no refusals of its own)
			let nomodel = !(rc == vec![0] || rc == vec![1, 9] || rc == vec![1, 10]);
			self.record(
				i,
				json!({"k": "cancel", "id": id, "slate": snum, "via_owner": true, "tip": tip, "parent": parent,
					"view": view, "chain": chain, "direct": direct}),
				rc,
				json!({"nomodel": nomodel, "target_mined": target_mined}),
			);
			return;
		}
		let r = guarded(|| {
			self.s.with(i, |b, m| {
				let pk = b.parent_key_id();
				itx::cancel_tx(b, m, &pk, id, slate)
			})
		});
		let rc = rc_of(&r);
		self.record(i, json!({"k": "cancel", "id": id, "slate": snum}), rc, json!({}));
	}
	/// is the transaction an owner-level cancel names (in the active account) already in the chain:
	/// its kernel is there, or one of the outputs it created is in the UTXO set
	fn target_mined(&self, i: usize, id: Option<u32>, slate: Option<Uuid>) -> bool {
		let chain = self.s.node.chain.clone();
		self.s.with(i, |b, _| {
			let pk = b.parent_key_id();
			let entry = b.tx_log_iter().find(|t| {
				t.parent_key_id == pk
					&& (id.map(|x| t.id == x).unwrap_or(false)
						|| (slate.is_some() && t.tx_slate_id == slate && id.is_none()))
					&& (t.tx_type == TxLogEntryType::TxSent || t.tx_type == TxLogEntryType::TxReceived)
			});
			let t = match entry {
				Some(t) => t,
				None => return false,
			};
			if let Some(e) = t.kernel_excess {
				if chain.get_kernel_height(&e, None, None).unwrap().is_some() {
					return true;
				}
			}
			for o in b.iter() {
				if o.root_key_id == pk && o.tx_log_entry == Some(t.id) && o.status == OutputStatus::Unconfirmed {
					if let Some(c) = &o.commit {
						let commit = Commitment::from_vec(grin_util::from_hex(c).unwrap());
						if chain.get_unspent(commit).unwrap().is_some() {
							return true;
						}
					}
				}
			}
			false
		})
	}
	fn coinbase_key(&mut self, i: usize) {
		// a foreign caller names an existing key id (or a fresh one)
		let keys: Vec<Identifier> = self.s.with(i, |b, _| b.iter().map(|o| o.key_id).collect());
		let key = if !keys.is_empty() && self.p.chance(4, 5) {
			self.p.pick(&keys).clone()
		} else {
			ExtKeychain::derive_key_id(3, 0, 0, 777, 0)
		};
		let height = self.s.node.height() + 1;
		let bf = BlockFees {
			fees: self.p.below(3) * 1000,
			key_id: Some(key.clone()),
			height,
		};
		let r = guarded(|| self.s.with(i, |b, m| foreign::build_coinbase(b, m, &bf, false)));
		let rc = rc_of(&r);
		let (a, c) = key_pair(&key);
		self.record(
			i,
			json!({"k": "coinbase", "fees": bf.fees.to_string(), "height": height, "key": [a, c]}),
			rc,
			json!({"foreign": true}),
		);
	}

	/// Directed late refresh: an account mines one or two blocks (and, one time in two, builds a
	/// coinbase candidate that never makes it into a block) and does not look at the node; the other
	/// wallet mines past the horizon (50 blocks) after which a refresh drops unconfirmed coinbase
	/// candidates; then the account is refreshed — the mined coinbases are confirmed, only the
	/// candidate that was never mined is dropped.
	fn late_refresh_episode(&mut self) {
		let i = self.p.below(2) as usize;
		let a = self.p.below(2);
		if self.active(i) != a {
			self.set_active(i, a);
		}
		let n = self.p.range(1, 2);
		for _ in 0..n {
			self.mine(i, false);
		}
		if self.p.coin() {
			let bf = BlockFees {
				fees: 0,
				key_id: None,
				height: self.s.node.height() + 1,
			};
			let r = guarded(|| self.s.with(i, |b, m| foreign::build_coinbase(b, m, &bf, false)));
			let rc = rc_of(&r);
			self.record(
				i,
				json!({"k": "coinbase", "fees": "0", "height": bf.height, "key": null}),
				rc,
				json!({"foreign": true, "never_mined": true}),
			);
		}
		let m = self.p.range(50, 54);
		for _ in 0..m {
			self.mine(1 - i, false);
		}
		// one time in two the wallet's other account is looked at first
		if self.p.coin() {
			self.set_active(i, 1 - a);
			self.refresh(i, true);
			self.set_active(i, a);
		}
		self.refresh(i, true);
	}

	/// Directed payment: a send is initiated, delivered into a chosen account of the other wallet,
	/// reserved, finalized, posted, mined and then seen by a refresh of that account (and of the
	/// sender's) — so that confirmations of non-coinbase outputs in BOTH accounts occur often.
	fn pay_episode(&mut self) {
		let sender = self.p.below(2) as usize;
		if self.p.coin() {
			// two payments to the same wallet, first into its lowest account, then into the second:
			// the second account's entry then carries a log id the lowest account already uses
			self.pay_episode_to(sender, Some(0));
			self.pay_episode_to(sender, Some(1));
		} else {
			let dest = Some(self.p.below(2));
			self.pay_episode_to(sender, dest);
		}
	}

	fn pay_episode_to(&mut self, sender: usize, dest: Option<u64>) {
		let before = self.flights.len();
		self.init_send(sender);
		if self.flights.len() == before {
			return;
		}
		let f = self.flights.len() - 1;
		let s1 = self.flights[f].s1.clone();
		let num = self.flights[f].num;
		// one payment in four is a self-send: delivered to (another account of) the sending wallet
		let r_i = if self.p.chance(1, 4) { sender } else { 1 - sender };
		let dest_name = dest.and_then(acct_name);
		let r = guarded(|| self.s.with(r_i, |b, m| foreign::receive_tx(b, m, &s1, dest_name, false)));
		let rc = rc_of(&r);
		if let Ok(Ok(s2)) = &r {
			self.flights[f].s2 = Some(wire(s2));
		}
		self.record(
			r_i,
			json!({"k": "receive", "slate": num, "amount": s1.amount.to_string(), "ttl": s1.ttl_cutoff_height,
				"dest": dest, "crypto_ok": true}),
			rc.clone(),
			json!({"foreign": true, "reply_participants": if rc == vec![0] { 1 } else { -1 }, "tampered": false}),
		);
		if rc != vec![0] {
			return;
		}
		self.lock(f);
		self.finalize(f);
		if self.flights[f].fin.is_none() {
			return;
		}
		self.post(f);
		let miner = self.p.below(2) as usize;
		self.mine(miner, true);
		// look at the destination account (switch to it if needed), then at the sender's
		let d = dest.unwrap();
		if self.active(r_i) != d {
			self.set_active(r_i, d);
		}
		if self.p.chance(1, 5) {
			// before either wallet has looked at the chain again, one side asks to cancel the mined
			// transaction through the owner API: the call's own refresh must find it confirmed
			let (who, acct) = if self.p.coin() { (sender, self.flights[f].src_parent) } else { (r_i, d) };
			if self.active(who) != acct {
				self.set_active(who, acct);
			}
			self.force_cancel = Some(self.flights[f].id);
			self.force_direct = true;
			self.cancel(who);
			self.force_direct = false;
			self.force_cancel = None;
			if self.active(r_i) != d {
				self.set_active(r_i, d);
			}
		}
		let all = self.p.coin();
		self.refresh(r_i, all);
		let all2 = self.p.coin();
		self.refresh(sender, all2);
	}

	/// Directed loss and recovery: the wallet is restored from its recovery phrase, looks at the
	/// chain, then starts a send over the restored outputs, reserves them and cancels it again.
	fn restore_episode(&mut self) {
		let i = self.p.below(2) as usize;
		self.restore(i);
		let all = self.p.coin();
		self.refresh(i, all);
		let before = self.flights.len();
		self.force_late = Some(false);
		self.init_send(i);
		self.force_late = None;
		if self.flights.len() == before {
			return;
		}
		let f = self.flights.len() - 1;
		self.lock(f);
		if self.p.chance(2, 3) {
			// (the send's account may not be the active one: switch to it, as a user would)
			let src = self.flights[f].src_parent;
			if self.active(i) != src {
				self.set_active(i, src);
			}
			self.force_cancel = Some(self.flights[f].id);
			self.cancel(i);
			self.force_cancel = None;
		}
	}

	/// Directed late lock: a send is initiated late-locked over all outputs of the account (its
	/// fee is fixed for that many inputs) and answered; before it is finalized another send of
	/// the same wallet reserves some of those outputs — so the selection redone at finalization
	/// differs from the one the fee was fixed for.
	fn late_lock_episode(&mut self) {
		let sender = self.p.below(2) as usize;
		let before = self.flights.len();
		self.force_late = Some(true);
		self.init_send(sender);
		self.force_late = None;
		if self.flights.len() == before {
			return;
		}
		let f = self.flights.len() - 1;
		let s1 = self.flights[f].s1.clone();
		let num = self.flights[f].num;
		let r_i = 1 - sender;
		let r = guarded(|| self.s.with(r_i, |b, m| foreign::receive_tx(b, m, &s1, None, false)));
		let rc = rc_of(&r);
		if let Ok(Ok(s2)) = &r {
			self.flights[f].s2 = Some(wire(s2));
		}
		self.record(
			r_i,
			json!({"k": "receive", "slate": num, "amount": s1.amount.to_string(), "ttl": s1.ttl_cutoff_height,
				"dest": null, "crypto_ok": true}),
			rc.clone(),
			json!({"foreign": true, "reply_participants": if rc == vec![0] { 1 } else { -1 }, "tampered": false}),
		);
		if rc != vec![0] {
			return;
		}
		// one time in four the sender first reserves explicitly with the reply, as the command line does
		// for every send (nothing is selected yet: the entry holds no inputs), and tries to finalize twice
		if self.p.chance(1, 4) {
			self.lock(f);
			self.finalize(f);
			self.finalize(f);
			return;
		}
		// a second send reserves part of the account's outputs (or a block adds one) in between
		if self.p.chance(3, 4) {
			let before2 = self.flights.len();
			self.force_late = Some(false);
			self.init_send(sender);
			self.force_late = None;
			if self.flights.len() > before2 {
				let g = self.flights.len() - 1;
				self.lock(g);
			}
		} else {
			self.mine(sender, false);
			self.mine(1 - sender, false);
			self.mine(1 - sender, false);
			self.mine(1 - sender, false);
		}
		self.finalize(f);
		if self.flights[f].fin.is_some() {
			self.post(f);
			let miner = self.p.below(2) as usize;
			self.mine(miner, true);
			let all = self.p.coin();
			self.refresh(sender, all);
		}
	}

	/// Directed expiry among other pending transactions: the account has a send without change and
	/// a second send, both with a cutoff; the first is completed and mined, the second stays pending;
	/// blocks pass until both cutoffs are reached and only then the wallet is updated — the first is
	/// then confirmed (by its kernel) in the very update that must cancel the second.
	fn ttl_episode(&mut self) {
		let i = self.p.below(2) as usize;
		let tip = self.s.node.height();
		let parent = self.active(i);
		let all = true;
		self.refresh(i, all);
		// the smallest spendable output of the account, sent whole (fee included): no change
		let smallest: Option<u64> = self.s.with(i, |b, _| {
			b.iter()
				.filter(|o| key_pair(&o.root_key_id).0 == parent && o.eligible_to_spend(tip, 1))
				.map(|o| o.value)
				.min()
		});
		let smallest = match smallest {
			Some(v) => v,
			None => return,
		};
		let ttl = self.p.range(2, 4);
		let before = self.flights.len();
		self.force_init = Some((smallest, true, Some(ttl), false));
		self.init_send(i);
		if self.flights.len() == before {
			return;
		}
		let a = self.flights.len() - 1;
		let s1 = self.flights[a].s1.clone();
		let num = self.flights[a].num;
		let r_i = 1 - i;
		let r = guarded(|| self.s.with(r_i, |b, m| foreign::receive_tx(b, m, &s1, None, false)));
		let rc = rc_of(&r);
		if let Ok(Ok(s2)) = &r {
			self.flights[a].s2 = Some(wire(s2));
		}
		self.record(
			r_i,
			json!({"k": "receive", "slate": num, "amount": s1.amount.to_string(), "ttl": s1.ttl_cutoff_height,
				"dest": null, "crypto_ok": true}),
			rc.clone(),
			json!({"foreign": true, "reply_participants": if rc == vec![0] { 1 } else { -1 }, "tampered": false}),
		);
		if rc != vec![0] {
			return;
		}
		self.lock(a);
		// the second send of the account, with a cutoff of its own, reserved and left pending
		let ttl2 = self.p.range(1, 4);
		let before2 = self.flights.len();
		self.force_init = Some((self.p.range(1, 2_000_000_000), false, Some(ttl2), false));
		self.init_send(i);
		if self.flights.len() > before2 {
			let g = self.flights.len() - 1;
			self.lock(g);
		}
		self.finalize(a);
		if self.flights[a].fin.is_none() {
			return;
		}
		self.post(a);
		// the other wallet mines: the sender sees nothing until both cutoffs have passed
		for n in 0..5 {
			self.mine(r_i, n == 0);
		}
		if self.active(i) != parent {
			self.set_active(i, parent);
		}
		self.update_state(i);
	}

	/// Directed invoice: issued, paid (one time in six by the issuing wallet itself), reserved,
	/// finalized by the issuer, posted, mined and looked at by both sides.
	fn invoice_episode(&mut self) {
		let issuer = self.p.below(2) as usize;
		let before = self.flights.len();
		self.issue_invoice(issuer);
		if self.flights.len() == before {
			return;
		}
		let f = self.flights.len() - 1;
		self.process_invoice(f);
		let payer = match self.flights[f].payer {
			Some(p) => p,
			None => return,
		};
		self.lock(f);
		self.finalize_invoice(f);
		if self.flights[f].fin.is_none() {
			return;
		}
		// one time in two the issuer then tries the payer's public listener with the invoice dressed up
		// as the reply to a standard send
		if self.p.coin() {
			self.relabelled_invoice_to_payer(f);
		}
		// a paid invoice carrying the payer's cutoff, one time in two: never broadcast; the chain passes
		// the cutoff and both sides look again (each side's entry is due)
		let cutoff = self.flights[f].s2.as_ref().map(|s| s.ttl_cutoff_height).unwrap_or(0);
		if cutoff != 0 && self.p.coin() {
			let miner = self.p.below(2) as usize;
			for n in 0..5 {
				self.mine(miner, n == 0);
			}
			self.update_state(issuer);
			if payer != issuer {
				self.update_state(payer);
			}
			return;
		}
		self.post(f);
		let miner = self.p.below(2) as usize;
		self.mine(miner, true);
		let all = self.p.coin();
		self.refresh(issuer, all);
		if payer != issuer {
			let all2 = self.p.coin();
			self.refresh(payer, all2);
		}
	}

	/// Directed reorg episode built from the primitive operations: complete a payment, confirm
	/// it at the recipient, orphan it by a longer fork, look again (reverted), then either
	/// re-mine it (re-confirmed) or leave it; with refreshes at the intermediate points.
	fn reorg_episode(&mut self) {
		let sender = self.p.below(2) as usize;
		let before = self.flights.len();
		self.init_send(sender);
		if self.flights.len() == before {
			return;
		}
		let f = self.flights.len() - 1;
		// deliver to the other wallet (untampered), lock, finalize, post
		let s1 = self.flights[f].s1.clone();
		let num = self.flights[f].num;
		let r_i = 1 - sender;
		let r = guarded(|| self.s.with(r_i, |b, m| foreign::receive_tx(b, m, &s1, None, false)));
		let rc = rc_of(&r);
		if let Ok(Ok(s2)) = &r {
			self.flights[f].s2 = Some(wire(s2));
		}
		self.record(
			r_i,
			json!({"k": "receive", "slate": num, "amount": s1.amount.to_string(), "ttl": s1.ttl_cutoff_height,
				"dest": null, "crypto_ok": true}),
			rc.clone(),
			json!({"foreign": true, "reply_participants": if rc == vec![0] { 1 } else { -1 }, "tampered": false}),
		);
		if rc != vec![0] {
			return;
		}
		self.lock(f);
		self.finalize(f);
		if self.flights[f].fin.is_none() {
			return;
		}
		self.post(f);
		let miner = self.p.below(2) as usize;
		self.mine(miner, true);
		if self.p.chance(3, 4) {
			let all = self.p.coin();
			self.refresh(r_i, all);
		}
		if self.p.coin() {
			self.mine(miner, false);
			self.refresh(r_i, true);
		}
		// one time in three the recipient starts a send of its own over everything it has, the payment
		// just confirmed included — and reserves only after the reorganisation
		let mut early: Option<usize> = None;
		if self.p.chance(1, 3) {
			let d = self.active(r_i);
			let _ = d;
			self.refresh(r_i, true);
			let before2 = self.flights.len();
			self.force_init = Some((self.p.range(1, 1_000_000_000), false, None, true));
			self.init_send(r_i);
			if self.flights.len() > before2 {
				early = Some(self.flights.len() - 1);
			}
		}
		self.fork(miner);
		let all = self.p.chance(2, 3);
		self.refresh(r_i, all);
		if let Some(g) = early {
			self.lock(g);
		}
		if self.p.coin() {
			self.refresh(sender, true);
		}
		// the wallet's periodic update (refresh, kernels, scan, expiry) also runs while the payment is out
		if self.p.coin() {
			self.update_state(r_i);
		}
		// ... and one time in three its owner runs the repair scan that drops unconfirmed records (scan -d):
		// the reverted payment is not one of those
		if self.p.chance(1, 3) {
			self.force_scan_del = true;
			self.scan(r_i);
			self.force_scan_del = false;
		}
		match self.p.below(3) {
			0 => {
				// the payment is mined again
				self.flights[f].posted = false;
				self.post(f);
				self.mine(miner, true);
				let all = self.p.coin();
				self.refresh(r_i, all);
			}
			1 => {
				self.fork(miner);
				self.refresh(r_i, true);
			}
			_ => {}
		}
	}

	/// Reorganisation: a branch forking `depth` blocks below the tip and `extra` blocks longer
	/// replaces the tip; coinbases of the new branch go to wallet i; each orphaned
	/// transaction is either put back into the pool (re-mined in the branch) or dropped.
	fn fork(&mut self, i: usize) {
		let tip = self.s.node.height();
		if tip < 3 {
			return;
		}
		let depth = self.p.range(1, 3.min(tip - 1));
		let extra = self.p.range(1, 2);
		let base = tip - depth;
		let mut prev = self.s.node.chain.get_header_by_height(base).unwrap();
		let orphaned: Vec<(u64, Transaction)> =
			self.mined.iter().filter(|(h, _)| *h > base).cloned().collect();
		self.mined.retain(|(h, _)| *h <= base);
		let remine = self.p.coin();
		let mut first_txs: Vec<Transaction> = if remine {
			orphaned.iter().map(|(_, t)| t.clone()).collect()
		} else {
			vec![]
		};
		for n in 0..(depth + extra) {
			let txs: Vec<Transaction> = if n == 0 { first_txs.drain(..).collect() } else { vec![] };
			let mut built = None;
			for attempt in 0..2 {
				let use_txs: &[Transaction] = if attempt == 0 { &txs } else { &[] };
				let fees: u64 = use_txs.iter().map(|t| t.fee()).sum();
				let bf = BlockFees {
					fees,
					key_id: None,
					height: prev.height + 1,
				};
				let cb = self
					.s
					.with(i, |b, m| foreign::build_coinbase(b, m, &bf, false))
					.unwrap();
				self.record(
					i,
					json!({"k": "coinbase", "fees": fees.to_string(), "height": bf.height, "key": null}),
					vec![0],
					json!({"foreign": true, "fork": true}),
				);
				if let Ok(b) = self.s.node.try_build_block(&prev, use_txs, (cb.output, cb.kernel)) {
					let hdr = b.header.clone();
					if self.s.node.process(b).is_ok() {
						for t in use_txs {
							self.mined.push((hdr.height, t.clone()));
						}
						built = Some(hdr);
						break;
					}
				}
			}
			match built {
				Some(h) => prev = h,
				None => return,
			}
		}
	}

	/// owner::update_wallet_state (refresh + kernel lookups + incremental scan + TTL expiry);
	/// not followed by the model (scan is outside it): used for the C17 expiry oracle only.
	/// returns whether it succeeded
	fn update_state(&mut self, i: usize) -> bool {
		let tip = self.s.node.height();
		self.learn(i);
		let view = self.node_view(i);
		let chain = self.chain_outs(i);
		let parent = self.active(i);
		let inst = self.s.wallets[i].inst.clone();
		let mask = self.s.wallets[i].mask.clone();
		// one update in eight meets a partial outage: the UTXO query fails while the tip and kernel
		// queries answer — the update must give up without touching the wallet
		let outage = self.p.chance(1, 8);
		if outage {
			self.s.node.fail_outputs.store(true, std::sync::atomic::Ordering::Relaxed);
		}
		let r = guarded(|| owner::update_wallet_state(inst, mask.as_ref(), &None, false));
		let rc = match &r {
			Err(_) => vec![2],
			Ok(Err(e)) => vec![1, err_class(e)],
			Ok(Ok(_)) => vec![0],
		};
		if outage {
			self.s.node.fail_outputs.store(false, std::sync::atomic::Ordering::Relaxed);
			let reported_ok = matches!(&r, Ok(Ok(true)));
			self.record(
				i,
				json!({"k": "update_state", "tip": tip, "parent": parent, "outage": true, "rc": rc}),
				rc.clone(),
				json!({"nomodel": false, "unreserved_spend": self.unreserved_spend[i], "reported_updated": reported_ok}),
			);
			return false;
		}
		let unreserved = self.unreserved_spend[i];
		// the model follows it when it succeeded and the chain is shorter than the scan's look-back
		let nomodel = rc != vec![0] || tip >= 100;
		let ok = rc == vec![0];
		let truth = self.chain_truth(i);
		self.record(
			i,
			json!({"k": "update_state", "tip": tip, "parent": parent, "view": view, "chain": chain}),
			rc,
			json!({"nomodel": nomodel, "unreserved_spend": unreserved, "truth": truth}),
		);
		ok
	}

	fn step(&mut self) {
		let i = self.p.below(2) as usize;
		let (w_init, w_cancel, w_cbkey) = match self.profile.as_str() {
			"c05" => (12, 22, 1),
			"c07" => (10, 6, 10),
			"c18" => (12, 3, 0),
			"c04" => (10, 4, 1),
			_ => (14, 8, 2),
		};
		let w_fork = if self.profile == "c18" { 6 } else { 0 };
		let w_episode = if self.profile == "c18" { 8 } else { 0 };
		let w_pay = if self.profile == "c04" { 14 } else { 6 };
		let w_restore = 2;
		let w_scan = 2;
		let w_update = 4;
		let w_ttl = if self.profile == "c17" { 8 } else { 1 };
		// the bands below plus a tail of 4 (reopen or nothing)
		let total = 14 + 12 + 3 + w_init + 14 + 14 + 12 + 8 + w_cancel + w_cbkey + w_fork + w_episode + w_pay + w_restore + w_scan + w_update + w_ttl + 4;
		let roll = self.p.below(total);
		let mut acc = 0;
		let mut in_band = |w: u64| {
			let lo = acc;
			acc += w;
			roll >= lo && roll < acc
		};
		if in_band(14) {
			let with_pool = self.p.chance(4, 5);
			self.mine(i, with_pool);
		} else if in_band(12) {
			let all = self.p.chance(1, 3);
			self.refresh(i, all);
		} else if in_band(3) {
			let a = self.p.below(2);
			self.set_active(i, a);
		} else if in_band(w_init) {
			if self.p.chance(1, 4) {
				self.issue_invoice(i);
			} else {
				self.init_send(i);
			}
		} else if in_band(14) {
			if let Some(f) = self.pick_flight() {
				self.receive(f);
			}
		} else if in_band(14) {
			if let Some(f) = self.pick_flight() {
				self.lock(f);
			}
		} else if in_band(12) {
			if let Some(f) = self.pick_flight() {
				self.finalize(f);
			}
		} else if in_band(8) {
			if let Some(f) = self.pick_flight() {
				self.post(f);
			}
		} else if in_band(w_cancel) {
			self.cancel(i);
		} else if in_band(w_cbkey) {
			self.coinbase_key(i);
		} else if in_band(w_fork) {
			self.fork(i);
		} else if in_band(w_episode) {
			self.reorg_episode();
		} else if in_band(w_pay) {
			// (the late refresh: at most once per history, it is 50 blocks long; mostly in profile c04)
			let late = !self.late_done && self.p.chance(1, if self.profile == "c04" { 5 } else { 16 });
			if late {
				self.late_done = true;
				self.late_refresh_episode();
				return;
			}
			match self.p.below(7) {
				0 => self.invoice_episode(),
				1 => self.late_lock_episode(),
				2 => self.restore_episode(),
				_ => self.pay_episode(),
			}
		} else if in_band(w_restore) {
			self.restore(i);
		} else if in_band(w_scan) {
			self.scan(i);
		} else if in_band(w_update) {
			self.update_state(i);
		} else if in_band(w_ttl) {
			self.ttl_episode();
		} else if self.p.chance(1, 2) {
			// closing and opening the wallet forgets the active account (it is not persisted):
			// for the model a reopen is a switch to the default account
			self.s.reopen(i);
			self.record(i, json!({"k": "set_active", "a": 0}), vec![0], json!({"reopen": true}));
		}
	}
}

fn main() {
	quiet_panics();
	init_thread();
	let out_path = arg("out").expect("--out");
	let n_hist = arg_u64("n", 10);
	let n_steps = arg_u64("steps", 30);
	let shard = arg_u64("shard", 0);
	let profile = arg("profile").unwrap_or_else(|| "c03".to_owned());
	let base = format!("/tmp/vh_ledger_{}_{}", std::process::id(), shard);
	let mut out = Out::create(&out_path);
	let seed = seed_from_env();
	for h in 0..n_hist {
		let hseed = seed
			.wrapping_mul(1_000_003)
			.wrapping_add(shard * 10_007 + h);
		let dir = format!("{}/h{}", base, h);
		let mut s = Scen::new(&dir);
		s.add_wallet("w0", None, false);
		s.add_wallet("w1", None, false);
		for i in 0..2 {
			s.with(i, |b, m| owner::create_account_path(b, m, "account_1")).unwrap();
		}
		let mut hist = Hist {
			s,
			p: Prng::new(hseed),
			flights: vec![],
			slate_nums: HashMap::new(),
			steps: [vec![], vec![]],
			profile: profile.clone(),
			mined: vec![],
			unreserved_spend: [false, false],
			known: [BTreeMap::new(), BTreeMap::new()],
			restores: 0,
			force_late: None,
			force_cancel: None,
			force_direct: false,
			force_scan_del: false,
			late_done: false,
			force_init: None,
		};
		// a funded start (modelled as coinbase ops): the same number of blocks to each wallet, in
		// half of the histories also to the second account of each wallet (so that per-account
		// log ids coincide across accounts)
		let warm = hist.p.range(2, 4);
		let both_accounts = hist.p.coin() || profile == "c04";
		for a in 0..(if both_accounts { 2 } else { 1 }) {
			for i in 0..2 {
				if both_accounts {
					hist.set_active(i, a);
				}
			}
			for _ in 0..warm {
				hist.mine(0, false);
				hist.mine(1, false);
			}
			hist.mine(0, false);
			hist.mine(0, false);
			for i in 0..2 {
				hist.refresh(i, false);
			}
		}
		if both_accounts {
			for i in 0..2 {
				let a = hist.p.below(2);
				hist.set_active(i, a);
			}
		}
		for _ in 0..n_steps {
			hist.step();
		}
		for i in 0..2 {
			hist.update_state(i);
		}
		for i in 0..2 {
			out.line(&json!({"hist": h, "seed": hseed.to_string(), "wallet": i, "steps": hist.steps[i]}));
		}
		drop(hist);
		let _ = std::fs::remove_dir_all(&dir);
	}
	let _ = std::fs::remove_dir_all(&base);
	out.finish();
}
