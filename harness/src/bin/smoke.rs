use vharness::libwallet::api_impl::{foreign, owner};
use vharness::libwallet::InitTxArgs;
use vharness::scen::*;
fn main() {
	let t0 = std::time::Instant::now();
	let mut s = Scen::new("/tmp/vh_smoke");
	let a = s.add_wallet("w1", None, false);
	let b = s.add_wallet("w2", None, true);
	s.mine(a, 5);
	println!("mined {:?}", t0.elapsed());
	let slate = s.with(a, |w, m| {
		let args = InitTxArgs { amount: 2_000_000_000, minimum_confirmations: 1, max_outputs: 500, num_change_outputs: 2, selection_strategy_is_use_all: false, ..Default::default() };
		owner::init_send_tx(w, m, args, false)
	}).unwrap();
	let slate2 = s.with(b, |w, m| foreign::receive_tx(w, m, &slate, None, false)).unwrap();
	s.with(a, |w, m| owner::tx_lock_outputs(w, m, &slate2)).unwrap();
	let fin = s.with(a, |w, m| owner::finalize_tx(w, m, &slate2)).unwrap();
	let client = s.node.client();
	owner::post_tx(&client, fin.tx_or_err().unwrap(), false).unwrap();
	println!("pool {}", s.mine_pool(a).unwrap());
	s.mine(a, 1);
	let r = owner::retrieve_summary_info(s.wallets[b].inst.clone(), s.wallets[b].mask.as_ref(), &None, true, 1).unwrap();
	println!("{:?}", r.1);
	s.reopen(b);
	println!("{}", s.snapshot(b));
	println!("total {:?}", t0.elapsed());
}
