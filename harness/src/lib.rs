//! Common machinery of the correspondence harness (see /verif/DESIGN.md section 3).
//! Everything here runs against /repo's crates as path dependencies, built with
//! `--cfg grin_wallet_verif` so that `grin_wallet_libwallet::verif_hooks` exists.

pub extern crate grin_core as core;
pub extern crate grin_keychain as keychain;
pub extern crate grin_util as util;
pub extern crate grin_wallet_api as api;
pub extern crate grin_wallet_controller as controller;
pub extern crate grin_wallet_impls as impls;
pub extern crate grin_wallet_libwallet as libwallet;

pub mod mem;
pub mod node;
pub mod prng;
pub mod scen;

use std::io::Write;
use std::panic::{catch_unwind, AssertUnwindSafe};

/// Run `f`, mapping an unwinding panic to `Err(message)`.
pub fn guarded<R>(f: impl FnOnce() -> R) -> Result<R, String> {
	match catch_unwind(AssertUnwindSafe(f)) {
		Ok(r) => Ok(r),
		Err(e) => {
			let msg = if let Some(s) = e.downcast_ref::<&str>() {
				s.to_string()
			} else if let Some(s) = e.downcast_ref::<String>() {
				s.clone()
			} else {
				"panic".to_string()
			};
			Err(msg)
		}
	}
}

/// Silence the default panic hook (we catch and classify panics ourselves).
pub fn quiet_panics() {
	if std::env::var("VERIF_LOUD").is_ok() {
		return;
	}
	std::panic::set_hook(Box::new(|_| {}));
}

/// Line-oriented JSON writer to a file (one case per line).
pub struct Out {
	w: std::io::BufWriter<std::fs::File>,
}
impl Out {
	pub fn create(path: &str) -> Out {
		Out {
			w: std::io::BufWriter::new(std::fs::File::create(path).expect("create out file")),
		}
	}
	pub fn line(&mut self, v: &serde_json::Value) {
		serde_json::to_writer(&mut self.w, v).unwrap();
		self.w.write_all(b"\n").unwrap();
	}
	pub fn finish(mut self) {
		self.w.flush().unwrap();
	}
	pub fn flush(&mut self) {
		self.w.flush().unwrap();
	}
}

/// Parse `--key value` style arguments.
pub fn arg(name: &str) -> Option<String> {
	let a: Vec<String> = std::env::args().collect();
	for i in 0..a.len() {
		if a[i] == format!("--{}", name) && i + 1 < a.len() {
			return Some(a[i + 1].clone());
		}
	}
	None
}
pub fn arg_u64(name: &str, default: u64) -> u64 {
	arg(name).and_then(|s| s.parse().ok()).unwrap_or(default)
}

/// Classify a libwallet error into the small enum shared with the Coq models
/// (Base.v `err`): the numbers are the wire format of the correspondence.
pub fn err_class(e: &libwallet::Error) -> u64 {
	use libwallet::Error::*;
	match e {
		NotEnoughFunds { .. } => 1,
		GenericError(_) => 2,
		Fee(_) => 3,
		SlateState => 4,
		TransactionAlreadyReceived(_) => 5,
		TransactionWasCancelled(_) => 6,
		TransactionExpired => 7,
		TransactionDoesntExist(_) => 9,
		TransactionNotCancellable(_) => 10,
		InvalidKeychainMask => 11,
		KeychainDoesntExist => 12,
		PaymentProof(_) | PaymentProofParsing(_) | PaymentProofRetrieval(_) => 16,
		Secp(_) | Keychain(_) | LibTX(_) | Transaction(_) | Signature(_) | Committed(_) => 17,
		ClientCallback(_) | Node => 19,
		_ => 21,
	}
}
