//! MemBackend: a minimal in-memory `WalletBackend` used to drive the *pure* selection
//! functions of libwallet (reached through hook H1) exhaustively. Only the methods those
//! functions use are implemented: `iter`, `next_child`, `keychain`, `calc_commit_for_cache`,
//! `parent_key_id`. Iteration order is insertion order (the model takes the same list).
use crate::impls::HTTPNodeClient;
use crate::keychain::{ExtKeychain, Identifier, Keychain, SwitchCommitmentType};
use crate::libwallet::{
	AcctPathMapping, Context, Error, OutputData, ScannedBlockInfo, TxLogEntry, WalletBackend,
	WalletInitStatus, WalletOutputBatch,
};
use crate::util::secp::key::SecretKey;
use crate::util::ToHex;
use grin_core::core::Transaction;
use uuid::Uuid;

pub struct MemBackend {
	pub outputs: Vec<OutputData>,
	pub parent: Identifier,
	pub child: u32,
	pub next_child_calls: u64,
	pub keychain: ExtKeychain,
}

lazy_static::lazy_static! {
	static ref KC: ExtKeychain = ExtKeychain::from_seed(&[7u8; 32], true).unwrap();
}

pub fn acct_id(acct: u32) -> Identifier {
	ExtKeychain::derive_key_id(2, acct, 0, 0, 0)
}
pub fn out_id(acct: u32, idx: u32) -> Identifier {
	ExtKeychain::derive_key_id(3, acct, 0, idx, 0)
}

impl MemBackend {
	pub fn new(parent_acct: u32) -> MemBackend {
		let keychain = KC.clone();
		MemBackend {
			outputs: vec![],
			parent: acct_id(parent_acct),
			child: 1_000_000,
			next_child_calls: 0,
			keychain,
		}
	}
}

impl<'ck> WalletBackend<'ck, HTTPNodeClient, ExtKeychain> for MemBackend {
	fn set_keychain(
		&mut self,
		_k: Box<ExtKeychain>,
		_mask: bool,
		_use_test_rng: bool,
	) -> Result<Option<SecretKey>, Error> {
		unimplemented!()
	}
	fn close(&mut self) -> Result<(), Error> {
		unimplemented!()
	}
	fn keychain(&self, _mask: Option<&SecretKey>) -> Result<ExtKeychain, Error> {
		Ok(self.keychain.clone())
	}
	fn w2n_client(&mut self) -> &mut HTTPNodeClient {
		unimplemented!()
	}
	fn calc_commit_for_cache(
		&mut self,
		_keychain_mask: Option<&SecretKey>,
		amount: u64,
		id: &Identifier,
	) -> Result<Option<String>, Error> {
		Ok(Some(
			self.keychain
				.commit(amount, id, SwitchCommitmentType::Regular)?
				.0
				.to_vec()
				.to_hex(),
		))
	}
	fn set_parent_key_id_by_name(&mut self, _label: &str) -> Result<(), Error> {
		unimplemented!()
	}
	fn set_parent_key_id(&mut self, id: Identifier) {
		self.parent = id;
	}
	fn parent_key_id(&mut self) -> Identifier {
		self.parent.clone()
	}
	fn iter<'a>(&'a self) -> Box<dyn Iterator<Item = OutputData> + 'a> {
		Box::new(self.outputs.clone().into_iter())
	}
	fn get(&self, id: &Identifier, mmr_index: &Option<u64>) -> Result<OutputData, Error> {
		self.outputs
			.iter()
			.find(|o| o.key_id == *id && o.mmr_index == *mmr_index)
			.cloned()
			.ok_or(Error::GenericError("not found".into()))
	}
	fn get_tx_log_entry(&self, _uuid: &Uuid) -> Result<Option<TxLogEntry>, Error> {
		unimplemented!()
	}
	fn get_private_context(
		&mut self,
		_keychain_mask: Option<&SecretKey>,
		_slate_id: &[u8],
	) -> Result<Context, Error> {
		unimplemented!()
	}
	fn tx_log_iter<'a>(&'a self) -> Box<dyn Iterator<Item = TxLogEntry> + 'a> {
		unimplemented!()
	}
	fn acct_path_iter<'a>(&'a self) -> Box<dyn Iterator<Item = AcctPathMapping> + 'a> {
		unimplemented!()
	}
	fn get_acct_path(&self, _label: String) -> Result<Option<AcctPathMapping>, Error> {
		unimplemented!()
	}
	fn store_tx(&self, _uuid: &str, _tx: &Transaction) -> Result<(), Error> {
		unimplemented!()
	}
	fn get_stored_tx(&self, _uuid: &str) -> Result<Option<Transaction>, Error> {
		unimplemented!()
	}
	fn batch<'a>(
		&'a mut self,
		_keychain_mask: Option<&SecretKey>,
	) -> Result<Box<dyn WalletOutputBatch<ExtKeychain> + 'a>, Error> {
		unimplemented!()
	}
	fn batch_no_mask<'a>(
		&'a mut self,
	) -> Result<Box<dyn WalletOutputBatch<ExtKeychain> + 'a>, Error> {
		unimplemented!()
	}
	fn current_child_index(&mut self, _parent_key_id: &Identifier) -> Result<u32, Error> {
		Ok(self.child)
	}
	fn next_child(&mut self, _keychain_mask: Option<&SecretKey>) -> Result<Identifier, Error> {
		let mut p = self.parent.to_path();
		p.depth += 1;
		p.path[p.depth as usize - 1] = crate::keychain::ChildNumber::from(self.child);
		self.child += 1;
		self.next_child_calls += 1;
		Ok(Identifier::from_path(&p))
	}
	fn last_confirmed_height(&mut self) -> Result<u64, Error> {
		unimplemented!()
	}
	fn last_scanned_block(&mut self) -> Result<ScannedBlockInfo, Error> {
		unimplemented!()
	}
	fn init_status(&mut self) -> Result<WalletInitStatus, Error> {
		unimplemented!()
	}
}
