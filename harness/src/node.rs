//! ChainNode: a `NodeClient` answering directly from a real in-process `grin_chain::Chain`
//! (no proxy thread). Posted transactions go to a pool; the harness decides when a block
//! is mined, to which wallet, with which pool transactions, and can switch the node
//! "off" (every call fails) or build forks.
use crate::core::core::{Block, BlockHeader, Output, Transaction, TxKernel};
use crate::core::global::{set_local_chain_type, ChainTypes};
use crate::core::{consensus, global, pow};
use crate::libwallet::{Error, NodeClient, NodeVersionInfo};
use crate::util::secp::pedersen;
use crate::util::{Mutex, ToHex};
use grin_chain::types::NoopAdapter;
use grin_chain::{Chain, Options};
use std::collections::HashMap;
use std::sync::atomic::{AtomicBool, AtomicU64, Ordering};
use std::sync::Arc;

pub struct NodeCtl {
	pub chain: Arc<Chain>,
	pub down: AtomicBool,
	/// partial outage: only the UTXO query (get_outputs_from_node) fails
	pub fail_outputs: AtomicBool,
	pub pool: Mutex<Vec<Transaction>>,
	pub calls: AtomicU64,
	/// cap on the number of leaves returned per get_outputs_by_pmmr_index call
	pub pmmr_batch: AtomicU64,
}

#[derive(Clone)]
pub struct ChainNode {
	pub ctl: Arc<NodeCtl>,
	url: String,
}

impl NodeCtl {
	pub fn new(dir: &str) -> Arc<NodeCtl> {
		set_local_chain_type(ChainTypes::AutomatedTesting);
		let genesis = pow::mine_genesis_block().unwrap();
		let chain = Chain::init(
			format!("{}/.grin", dir),
			Arc::new(NoopAdapter {}),
			genesis,
			pow::verify_size,
			false,
		)
		.unwrap();
		Arc::new(NodeCtl {
			chain: Arc::new(chain),
			down: AtomicBool::new(false),
			fail_outputs: AtomicBool::new(false),
			pool: Mutex::new(vec![]),
			calls: AtomicU64::new(0),
			pmmr_batch: AtomicU64::new(u64::MAX),
		})
	}
	pub fn client(self: &Arc<Self>) -> ChainNode {
		ChainNode {
			ctl: self.clone(),
			url: "node".to_owned(),
		}
	}
	pub fn height(&self) -> u64 {
		self.chain.head().unwrap().height
	}
	/// Build a block on `prev` with the given reward and transactions.
	pub fn build_block(
		&self,
		prev: &BlockHeader,
		txs: &[Transaction],
		reward: (Output, TxKernel),
	) -> Block {
		self.try_build_block(prev, txs, reward).unwrap()
	}
	/// As build_block, but an invalid transaction set (double spend, duplicate) is an Err.
	pub fn try_build_block(
		&self,
		prev: &BlockHeader,
		txs: &[Transaction],
		reward: (Output, TxKernel),
	) -> Result<Block, String> {
		let next = consensus::next_difficulty(prev.height + 1, self.chain.difficulty_iter().unwrap());
		let mut b = Block::new(prev, txs, next.clone().difficulty, reward)
			.map_err(|e| format!("{:?}", e))?;
		b.header.timestamp = prev.timestamp + chrono::Duration::seconds(60);
		b.header.pow.secondary_scaling = next.secondary_scaling;
		self.chain
			.set_txhashset_roots(&mut b)
			.map_err(|e| format!("{:?}", e))?;
		pow::pow_size(
			&mut b.header,
			next.difficulty,
			global::proofsize(),
			global::min_edge_bits(),
		)
		.map_err(|e| format!("{:?}", e))?;
		Ok(b)
	}
	pub fn process(&self, b: Block) -> Result<(), grin_chain::Error> {
		self.chain.process_block(b, Options::MINE).map(|_| ())
	}
	fn check(&self) -> Result<(), Error> {
		self.calls.fetch_add(1, Ordering::Relaxed);
		if self.down.load(Ordering::Relaxed) {
			Err(Error::ClientCallback("node down".into()))
		} else {
			Ok(())
		}
	}
}

impl NodeClient for ChainNode {
	fn node_url(&self) -> &str {
		&self.url
	}
	fn set_node_url(&mut self, u: &str) {
		self.url = u.to_owned()
	}
	fn node_api_secret(&self) -> Option<String> {
		None
	}
	fn set_node_api_secret(&mut self, _s: Option<String>) {}
	fn get_version_info(&mut self) -> Option<NodeVersionInfo> {
		None
	}
	fn post_tx(&self, tx: &Transaction, _fluff: bool) -> Result<(), Error> {
		self.ctl.check()?;
		self.ctl.pool.lock().push(tx.clone());
		Ok(())
	}
	fn get_chain_tip(&self) -> Result<(u64, String), Error> {
		self.ctl.check()?;
		let h = self.ctl.chain.head().unwrap();
		Ok((h.height, h.last_block_h.to_hex()))
	}
	fn get_outputs_from_node(
		&self,
		wallet_outputs: Vec<pedersen::Commitment>,
	) -> Result<HashMap<pedersen::Commitment, (String, u64, u64)>, Error> {
		self.ctl.check()?;
		if self.ctl.fail_outputs.load(Ordering::Relaxed) {
			return Err(Error::ClientCallback("node: output query timed out".into()));
		}
		let chain = &self.ctl.chain;
		let mut res = HashMap::new();
		for commit in wallet_outputs {
			if chain.get_unspent(commit).unwrap().is_some() {
				let height = chain.get_header_for_output(commit).unwrap().height;
				let pos = chain.get_output_pos(&commit).unwrap_or(0);
				res.insert(commit, (commit.as_ref().to_hex(), height, pos));
			}
		}
		Ok(res)
	}
	fn get_kernel(
		&mut self,
		excess: &pedersen::Commitment,
		min_height: Option<u64>,
		max_height: Option<u64>,
	) -> Result<Option<(TxKernel, u64, u64)>, Error> {
		self.ctl.check()?;
		Ok(self
			.ctl
			.chain
			.get_kernel_height(excess, min_height, max_height)
			.unwrap())
	}
	fn get_outputs_by_pmmr_index(
		&self,
		start_index: u64,
		end_index: Option<u64>,
		max_outputs: u64,
	) -> Result<
		(
			u64,
			u64,
			Vec<(pedersen::Commitment, pedersen::RangeProof, bool, u64, u64)>,
		),
		Error,
	> {
		self.ctl.check()?;
		let chain = &self.ctl.chain;
		let start_index = std::cmp::max(start_index, 1);
		let max_outputs = std::cmp::min(max_outputs, self.ctl.pmmr_batch.load(Ordering::Relaxed));
		let outputs = chain
			.unspent_outputs_by_pmmr_index(start_index, max_outputs, end_index)
			.unwrap();
		let mut v = vec![];
		for o in outputs.2.iter() {
			let pos = chain.get_unspent(o.commitment()).unwrap();
			let (height, mmr) = match pos {
				Some((_, p)) => (p.height, p.pos),
				None => continue,
			};
			v.push((o.commitment(), o.proof(), o.is_coinbase(), height, mmr));
		}
		// (highest_index, last_retrieved_index, outputs)
		Ok((outputs.1, outputs.0, v))
	}
	fn height_range_to_pmmr_indices(
		&self,
		start_height: u64,
		end_height: Option<u64>,
	) -> Result<(u64, u64), Error> {
		self.ctl.check()?;
		let i = self
			.ctl
			.chain
			.block_height_range_to_pmmr_indices(start_height, end_height)
			.unwrap();
		Ok((i.0, i.1))
	}
}
