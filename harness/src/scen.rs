//! Scenario support: real LMDB-backed wallets (DefaultWalletImpl/DefaultLCProvider) on a
//! real in-process chain (ChainNode), explicit mining, reopen, and a canonical snapshot
//! of a wallet's persistent state (outputs, tx log, child indices, confirmed heights).
use crate::impls::{DefaultLCProvider, DefaultWalletImpl};
use crate::keychain::{ExtKeychain, Identifier};
use crate::libwallet::api_impl::foreign;
use crate::libwallet::{
	BlockFees, Error, OutputData, OutputStatus, TxLogEntry, TxLogEntryType, WalletBackend,
	WalletInst, WalletLCProvider,
};
use crate::node::{ChainNode, NodeCtl};
use crate::util::secp::key::SecretKey;
use crate::util::{Mutex, ZeroingString};
use grin_core::core::Transaction;
use serde_json::{json, Value};
use std::sync::Arc;

pub type LC = DefaultLCProvider<'static, ChainNode, ExtKeychain>;
pub type WInst = Arc<Mutex<Box<dyn WalletInst<'static, LC, ChainNode, ExtKeychain>>>>;
pub type Backend = dyn WalletBackend<'static, ChainNode, ExtKeychain>;

pub struct W {
	pub name: String,
	pub inst: WInst,
	pub mask: Option<SecretKey>,
}

pub struct Scen {
	pub dir: String,
	pub node: Arc<NodeCtl>,
	pub wallets: Vec<W>,
}

pub fn init_thread() {
	grin_core::global::set_local_chain_type(grin_core::global::ChainTypes::AutomatedTesting);
}

fn new_inst(node: &Arc<NodeCtl>, dir: &str, name: &str) -> Box<dyn WalletInst<'static, LC, ChainNode, ExtKeychain>> {
	let mut wallet = Box::new(DefaultWalletImpl::<'static, ChainNode>::new(node.client()).unwrap())
		as Box<dyn WalletInst<'static, LC, ChainNode, ExtKeychain>>;
	let lc = wallet.lc_provider().unwrap();
	let _ = lc.set_top_level_directory(&format!("{}/{}", dir, name));
	wallet
}

impl Scen {
	/// Fresh directory, fresh chain (genesis only), no wallets.
	pub fn new(dir: &str) -> Scen {
		init_thread();
		let _ = std::fs::remove_dir_all(dir);
		std::fs::create_dir_all(dir).unwrap();
		Scen {
			dir: dir.to_owned(),
			node: NodeCtl::new(dir),
			wallets: vec![],
		}
	}
	pub fn add_wallet(&mut self, name: &str, mnemonic: Option<&str>, mask: bool) -> usize {
		let mut wallet = new_inst(&self.node, &self.dir, name);
		let lc = wallet.lc_provider().unwrap();
		lc.create_wallet(
			None,
			mnemonic.map(|m| ZeroingString::from(m)),
			32,
			ZeroingString::from(""),
			false,
		)
		.unwrap();
		let m = lc
			.open_wallet(None, ZeroingString::from(""), mask, false)
			.unwrap();
		self.wallets.push(W {
			name: name.to_owned(),
			inst: Arc::new(Mutex::new(wallet)),
			mask: m,
		});
		self.wallets.len() - 1
	}
	/// Drop the wallet instance (closing LMDB) and open the same directory again.
	pub fn reopen(&mut self, i: usize) {
		let name = self.wallets[i].name.clone();
		let use_mask = self.wallets[i].mask.is_some();
		{
			let mut l = self.wallets[i].inst.lock();
			let lc = l.lc_provider().unwrap();
			let _ = lc.close_wallet(None);
		}
		let mut wallet = new_inst(&self.node, &self.dir, &name);
		let lc = wallet.lc_provider().unwrap();
		let m = lc
			.open_wallet(None, ZeroingString::from(""), use_mask, false)
			.unwrap();
		self.wallets[i] = W {
			name,
			inst: Arc::new(Mutex::new(wallet)),
			mask: m,
		};
	}
	/// Run `f` on wallet i's backend (holding the wallet lock).
	pub fn with<R>(&self, i: usize, f: impl FnOnce(&mut Backend, Option<&SecretKey>) -> R) -> R {
		let w = &self.wallets[i];
		let mut l = w.inst.lock();
		let lc = l.lc_provider().unwrap();
		let b = lc.wallet_inst().unwrap();
		f(&mut **b, w.mask.as_ref())
	}
	/// Mine one block whose coinbase goes to wallet i, including `txs`.
	pub fn mine_block(&self, i: usize, txs: &[Transaction]) -> Result<(), Error> {
		let prev = self.node.chain.head_header().unwrap();
		let fees = txs.iter().map(|t| t.fee()).sum();
		let bf = BlockFees {
			fees,
			key_id: None,
			height: prev.height + 1,
		};
		let cb = self.with(i, |b, m| foreign::build_coinbase(b, m, &bf, false))?;
		let block = self.node.build_block(&prev, txs, (cb.output, cb.kernel));
		self.node
			.process(block)
			.map_err(|e| Error::GenericError(format!("process_block: {:?}", e)))
	}
	/// Mine n empty blocks to wallet i.
	pub fn mine(&self, i: usize, n: usize) {
		for _ in 0..n {
			self.mine_block(i, &[]).unwrap();
		}
	}
	/// Mine one block to wallet i with everything in the node's pool; the pool is cleared.
	/// Returns Err (and drops the pool) if the block is invalid.
	pub fn mine_pool(&self, i: usize) -> Result<usize, Error> {
		let txs: Vec<Transaction> = self.node.pool.lock().drain(..).collect();
		self.mine_block(i, &txs).map(|_| txs.len())
	}
	pub fn snapshot(&self, i: usize) -> Value {
		self.with(i, |b, _| snapshot(b))
	}
}

pub fn status_code(s: &OutputStatus) -> u64 {
	match s {
		OutputStatus::Unconfirmed => 0,
		OutputStatus::Unspent => 1,
		OutputStatus::Locked => 2,
		OutputStatus::Spent => 3,
		OutputStatus::Reverted => 4,
	}
}
pub fn txtype_code(t: &TxLogEntryType) -> u64 {
	match t {
		TxLogEntryType::ConfirmedCoinbase => 0,
		TxLogEntryType::TxReceived => 1,
		TxLogEntryType::TxSent => 2,
		TxLogEntryType::TxReceivedCancelled => 3,
		TxLogEntryType::TxSentCancelled => 4,
		TxLogEntryType::TxReverted => 5,
	}
}
/// (account index, child index) of a depth-3 key id m/acct/0/child; accounts are the
/// depth-2 ids m/acct/0.
pub fn key_pair(id: &Identifier) -> (u64, u64) {
	let p = id.to_path();
	let a: u32 = p.path[0].into();
	let c: u32 = p.path[2].into();
	(a as u64, if p.depth >= 3 { c as u64 } else { u64::MAX })
}
pub fn out_json(o: &OutputData) -> Value {
	let (a, c) = key_pair(&o.key_id);
	let (ra, _) = key_pair(&o.root_key_id);
	json!({"root": ra, "acct": a, "child": c, "mmr": o.mmr_index, "value": o.value.to_string(),
		"status": status_code(&o.status), "height": o.height, "lock": o.lock_height,
		"cb": o.is_coinbase, "tx": o.tx_log_entry})
}
pub fn tx_json(t: &TxLogEntry) -> Value {
	let (pa, _) = key_pair(&t.parent_key_id);
	json!({"parent": pa, "id": t.id, "slate": t.tx_slate_id.map(|u| u.to_string()),
		"type": txtype_code(&t.tx_type), "confirmed": t.confirmed,
		"credited": t.amount_credited.to_string(), "debited": t.amount_debited.to_string(),
		"fee": t.fee.map(|f| f.fee().to_string()), "ttl": t.ttl_cutoff_height,
		"n_in": t.num_inputs, "n_out": t.num_outputs, "has_excess": t.kernel_excess.is_some(),
		"has_proof": t.payment_proof.is_some(), "stored_tx": t.stored_tx.is_some(),
		"reverted_after": t.reverted_after.is_some()})
}
/// Canonical persistent state of a wallet (sorted), timestamps dropped.
pub fn snapshot(b: &mut Backend) -> Value {
	let mut outs: Vec<OutputData> = b.iter().collect();
	outs.sort_by_key(|o| (key_pair(&o.key_id), o.mmr_index));
	let mut txs: Vec<TxLogEntry> = b.tx_log_iter().collect();
	txs.sort_by_key(|t| (key_pair(&t.parent_key_id).0, t.id));
	let accts: Vec<_> = b.acct_path_iter().collect();
	let mut child = vec![];
	for a in &accts {
		let idx = b.current_child_index(&a.path).unwrap_or(0);
		child.push(json!([key_pair(&a.path).0, idx]));
	}
	json!({
		"outputs": outs.iter().map(out_json).collect::<Vec<_>>(),
		"txs": txs.iter().map(tx_json).collect::<Vec<_>>(),
		"child": child,
		"active": key_pair(&b.parent_key_id()).0,
		"conf_h": b.last_confirmed_height().unwrap_or(0),
	})
}

/// What the counterparty receives: the slate after the V4 (compact) JSON wire format — fields
/// the format drops (the fee and amount on a reply, an empty transaction body, ...) are gone.
pub fn wire(s: &crate::libwallet::Slate) -> crate::libwallet::Slate {
	use crate::libwallet::{Slate, SlateVersion, VersionedSlate};
	let v = VersionedSlate::into_version(s.clone(), SlateVersion::V4).expect("to V4");
	let js = serde_json::to_string(&v).expect("serialize");
	let v2: VersionedSlate = serde_json::from_str(&js).expect("parse");
	Slate::from(v2)
}
