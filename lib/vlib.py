"""Common machinery of the /verif checks (see DESIGN.md section 4).

Every check: rebuilds the harness against /repo's working tree (hooks on), builds the
Coq files of its property (full .vo), audits them (no Admitted/Axiom..., Print
Assumptions allow-list, statement pin), runs implementation and model on the same
cases, diffs, runs the property oracle, prints the verdict lines and writes evidence.
"""
import hashlib
import json
import os
import re
import subprocess
import sys
import time
from concurrent.futures import ThreadPoolExecutor

VERIF = os.path.dirname(os.path.dirname(os.path.abspath(__file__)))
COQ = os.path.join(VERIF, "coq")
# (the three overrides exist only for tools/mutrun.sh, which points the checks at a scratch
#  copy of the harness built against a mutated worktree instead of /repo)
HARNESS = os.environ.get("VERIF_HARNESS_DIR", os.path.join(VERIF, "harness"))
CACHE = os.path.join(VERIF, ".cache")
TARGET = os.environ.get("VERIF_TARGET_DIR", os.path.join(CACHE, "target"))
EVID = os.environ.get("VERIF_EVID_DIR", os.path.join(VERIF, "evidence"))
REPLAY = os.path.join(EVID, "replay")

ALLOWED_AXIOMS = {
    # stdlib axioms that may appear under Print Assumptions (named in DESIGN.md section 7)
    "functional_extensionality_dep",
    "FunctionalExtensionality.functional_extensionality_dep",
    "Eqdep.Eq_rect_eq.eq_rect_eq",
    "eq_rect_eq",
    "JMeq_eq",
    "JMeq.JMeq_eq",
    "proof_irrelevance",
    "ProofIrrelevance.proof_irrelevance",
    "classic",
    "Classical_Prop.classic",
}
FORBIDDEN = re.compile(
    r"\b(Admitted|admit|Axiom|Axioms|Parameter|Parameters|Conjecture|Abort All|"
    r"Unset\s+Guard\s+Checking|Unset\s+Positivity\s+Checking|Unset\s+Universe\s+Checking|"
    r"bypass_check|type-in-type|impredicative-set|Admit\s+Obligations)\b"
)


class Infra(Exception):
    """The machinery itself failed (not a verdict about the property)."""


HARNESS_DEATHS = []


def sh(cmd, cwd=None, timeout=3600, env=None):
    e = dict(os.environ)
    e.setdefault("CARGO_NET_OFFLINE", "true")
    if env:
        e.update(env)
    p = subprocess.run(cmd, cwd=cwd, shell=isinstance(cmd, str), stdout=subprocess.PIPE,
                       stderr=subprocess.STDOUT, timeout=timeout, env=e)
    out = p.stdout.decode("utf-8", "replace")
    # a harness binary that dies (signal, abort, panic outside its guarded calls) means the code
    # under test took the process down: remembered, so that the driver reports it as a violation
    # (the correspondence no longer runs) rather than as an infrastructure error
    if not isinstance(cmd, str) and cmd and str(cmd[0]).startswith(TARGET) and \
            (p.returncode < 0 or p.returncode in (101, 134, 139)):
        HARNESS_DEATHS.append({"command": [str(c) for c in cmd][:12], "exit_status": p.returncode,
                               "output_tail": out[-3000:]})
    return p.returncode, out


def seed():
    try:
        return int(os.environ.get("VERIF_SEED", "1"))
    except ValueError:
        return 1


def workdir(prop):
    d = os.path.join(os.environ.get("VERIF_WORK_DIR", os.path.join(CACHE, "work")), prop)
    os.makedirs(d, exist_ok=True)
    return d


# ------------------------------------------------------------------ harness build

def build_harness(bins):
    """cargo build (offline) of the named harness binaries against /repo's working tree."""
    lock = os.path.join(HARNESS, "Cargo.lock")
    if not os.path.exists(lock):
        subprocess.run(["cp", "/repo/Cargo.lock", lock], check=True)
    # (the target directory is passed explicitly so that a copy of /verif elsewhere builds into,
    # and runs from, its own cache rather than the path written in harness/.cargo/config.toml)
    cmd = ["cargo", "build", "--offline", "--target-dir", TARGET] + sum([["--bin", b] for b in bins], [])
    # cargo serialises concurrent builds on the target dir lock by itself
    rc, out = sh(cmd, cwd=HARNESS, timeout=3000)
    if rc != 0:
        raise Infra("harness build failed:\n" + out[-4000:])
    return [os.path.join(TARGET, "debug", b) for b in bins]


# ------------------------------------------------------------------ Coq

COQPROJECT_HEAD = """-Q theories GW
-Q props GWP
-arg -w -arg -notation-overridden,-deprecated-hint-without-locality,-deprecated-instance-without-locality
"""


def coq_makefile():
    """_CoqProject is generated from the files present (theories/*.v, props/*.v) so that
    adding a file needs no shared edit; the Makefile is regenerated when the set changes."""
    import glob
    files = sorted(glob.glob(os.path.join(COQ, "theories", "*.v"))) + \
        sorted(glob.glob(os.path.join(COQ, "props", "*.v")))
    want = COQPROJECT_HEAD + "".join(os.path.relpath(f, COQ) + "\n" for f in files)
    cp = os.path.join(COQ, "_CoqProject")
    mk = os.path.join(COQ, "Makefile")
    import fcntl
    os.makedirs(CACHE, exist_ok=True)
    with open(os.path.join(CACHE, "coqproject.lock"), "w") as lk:
        fcntl.flock(lk, fcntl.LOCK_EX)
        have = open(cp).read() if os.path.exists(cp) else ""
        if have != want or not os.path.exists(mk):
            open(cp, "w").write(want)
            rc, out = sh("coq_makefile -f _CoqProject -o Makefile", cwd=COQ)
            if rc != 0:
                raise Infra("coq_makefile failed: " + out)


def coq_make(targets, timeout=1800):
    """Full .vo build of the given targets (relative to coq/). Returns (ok, log)."""
    coq_makefile()
    import fcntl
    with open(os.path.join(CACHE, "coq.lock"), "w") as lk:
        fcntl.flock(lk, fcntl.LOCK_EX)
        rc, out = sh(["timeout", str(timeout), "make", "-j16"] + targets, cwd=COQ,
                     timeout=timeout + 60)
    return rc == 0, out


def coq_deps(vfile):
    """Transitive list of development .v files that vfile depends on (via coqdep)."""
    rc, out = sh("coqdep -f _CoqProject 2>/dev/null", cwd=COQ)
    dep = {}
    for line in out.splitlines():
        if ":" not in line:
            continue
        lhs, rhs = line.split(":", 1)
        tgts = [t for t in lhs.split() if t.endswith(".vo")]
        deps = [d[:-1] for d in rhs.split() if d.endswith(".vo")]
        for t in tgts:
            dep[t[:-1]] = deps
    seen, todo = [], [vfile]
    while todo:
        f = todo.pop()
        if f in seen:
            continue
        seen.append(f)
        todo.extend(dep.get(f, []))
    return sorted(seen)


def count_obligations(vfiles):
    n = 0
    for f in vfiles:
        s = open(os.path.join(COQ, f)).read()
        n += len(re.findall(r"\b(Qed|Defined)\.", s))
    return n


def audit(prop_file, pins):
    """Forbidden-word grep over the dependency cone, Print Assumptions allow-list and
    statement pin (sha256 of the props file). Returns (problems, info)."""
    problems = []
    cone = coq_deps(prop_file)
    for f in cone:
        s = open(os.path.join(COQ, f)).read()
        s_nc = re.sub(r"\(\*.*?\*\)", "", s, flags=re.S)
        for m in FORBIDDEN.finditer(s_nc):
            problems.append("forbidden '%s' in %s" % (m.group(0), f))
    src = open(os.path.join(COQ, prop_file)).read()
    sha = hashlib.sha256(src.encode()).hexdigest()
    pinned = pins.get(prop_file)
    if pinned is None:
        problems.append("no statement pin recorded for %s" % prop_file)
    elif pinned != sha:
        problems.append("statement pin mismatch for %s (theorem statements edited?)" % prop_file)
    # Print Assumptions: recompile the props file alone and read its output
    rc, out = sh(["coqc", "-q", "-Q", "theories", "GW", "-Q", "props", "GWP", "-w",
                  "-notation-overridden,-deprecated-hint-without-locality,-deprecated-instance-without-locality",
                  prop_file], cwd=COQ, timeout=900)
    if rc != 0:
        problems.append("props file does not compile: " + out[-1500:])
    theorems = re.findall(r"^\s*Print Assumptions\s+(\S+)\.", src, flags=re.M)
    closed = out.count("Closed under the global context")
    axioms = set()
    for blk in re.findall(r"Axioms:\n((?:.+\n?)+?)(?:\n|$)", out):
        for line in blk.splitlines():
            m = re.match(r"^(\S+)\s*:", line)
            if m:
                axioms.add(m.group(1))
    for a in sorted(axioms):
        if a not in ALLOWED_AXIOMS and a.split(".")[-1] not in ALLOWED_AXIOMS:
            problems.append("theorem depends on axiom %s" % a)
    if closed + (1 if axioms else 0) < 1 and theorems:
        problems.append("no Print Assumptions output")
    info = {"cone": cone, "theorems": theorems, "closed_under_global_context": closed,
            "axioms": sorted(axioms), "sha256": sha}
    return problems, info


def load_pins():
    """pins/<Cxx>.sha256 holds the SHA-256 of coq/props/<Cxx>.v (written by tools/pin.py)."""
    pins = {}
    d = os.path.join(VERIF, "pins")
    if os.path.isdir(d):
        for f in os.listdir(d):
            if f.endswith(".sha256"):
                pins["props/%s.v" % f[:-7]] = open(os.path.join(d, f)).read().strip()
    return pins


def parse_coq_value(out):
    """Parse the output of one `Eval vm_compute in <list of list Z>` into nested ints."""
    txt = " ".join(out.split())
    m = re.search(r"=\s*(\[.*\])\s*:\s*list", txt)
    if not m:
        raise Infra("cannot parse coq output: " + txt[:600])
    body = m.group(1).replace("%Z", "").replace("%N", "").replace(";", ",")
    body = re.sub(r"\(\s*(-\d+)\s*\)", r"\1", body)
    return json.loads(body)


def coq_eval(prop, imports, run_fn, terms, shard=500, extra_defs=""):
    """Evaluate `map run_fn [terms]` inside Coq (vm_compute), sharded over parallel coqc.
    Returns the list of results (nested int lists), in order."""
    wd = workdir(prop)
    for f in os.listdir(wd):
        if f.startswith("cases_"):
            os.remove(os.path.join(wd, f))
    shards = [terms[i:i + shard] for i in range(0, len(terms), shard)]

    def run(i):
        path = os.path.join(wd, "cases_%d.v" % i)
        with open(path, "w") as f:
            f.write(imports + "\nSet Printing Width 2000000.\nSet Printing Depth 10000000.\n" + extra_defs + "\n")
            f.write("Definition cases := [\n" + ";\n".join(shards[i]) + "\n].\n")
            f.write("Eval vm_compute in (map %s cases).\n" % run_fn)
        # (a case may make the model build a list of 10^5 elements with a non-tail-recursive
        # function: evaluate with the stack limit lifted)
        rc, out = sh(["bash", "-c", 'ulimit -s unlimited 2>/dev/null || ulimit -s 4000000 2>/dev/null; exec "$@"', "--",
                      "timeout", "900", "coqc", "-q", "-noglob", "-Q", os.path.join(COQ, "theories"), "GW",
                      "-Q", wd, "Cases", "-w", "-all", path], timeout=1000)
        if rc != 0:
            raise Infra("coqc failed on %s: %s" % (path, out[-2000:]))
        return parse_coq_value(out)

    res = []
    with ThreadPoolExecutor(max_workers=16) as ex:
        for r in ex.map(run, range(len(shards))):
            res.extend(r)
    if len(res) != len(terms):
        raise Infra("model returned %d results for %d cases" % (len(res), len(terms)))
    return res


# Coq term printers
def cN(n):
    return "%d%%N" % int(n)


def cZ(n):
    n = int(n)
    return "(%d)%%Z" % n if n < 0 else "%d%%Z" % n


def cB(b):
    return "true" if b else "false"


def cL(items):
    return "[" + "; ".join(items) + "]"


def cOpt(x, f):
    return "None" if x is None else "(Some %s)" % f(x)


# ------------------------------------------------------------------ verdict / evidence

def known_findings(prop):
    p = os.path.join(VERIF, "known_findings.json")
    if not os.path.exists(p):
        return []
    return [k for k in json.load(open(p)).get("findings", []) if k.get("property") == prop
            and k.get("status") == "open"]


def write_replay(prop, obj):
    os.makedirs(REPLAY, exist_ok=True)
    n = 0
    while os.path.exists(os.path.join(REPLAY, "%s-%d.json" % (prop, n))):
        n += 1
    path = os.path.join(REPLAY, "%s-%d.json" % (prop, n))
    json.dump(obj, open(path, "w"), indent=1)
    return path


def write_evidence(prop, tier, coverage, assumptions, wall, violations, level="proof"):
    os.makedirs(EVID, exist_ok=True)
    ev = {"property_id": prop, "tier": tier, "seed": seed(), "level": level,
          "coverage": coverage, "assumptions": assumptions, "wall_s": round(wall, 2),
          "violations": violations}
    json.dump(ev, open(os.path.join(EVID, "%s.json" % prop), "w"), indent=1)


TRUSTED_BASE = [
    "Coq 8.16.1 kernel and vm_compute (no native_compute); full .vo build via coq_makefile",
    "no axioms declared by the development; Print Assumptions of every property theorem checked against an allow-list of stdlib axioms",
    "hand-written Gallina model tied to /repo by the correspondence harness (/verif/harness, Rust, path deps on /repo's crates, rebuilt on every run, hooks --cfg grin_wallet_verif)",
    "model evaluated inside Coq (cases.v + vm_compute); no extraction",
    "rustc/cargo, serde_json, the python driver (/verif/check, /verif/lib/vlib.py)",
]


class Verdict:
    """Collects what a check found and prints the protocol lines."""

    def __init__(self, prop, tier):
        self.prop, self.tier = prop, tier
        self.violations = []      # (replay_obj, no_input: bool)
        self.known = []
        self.t0 = time.time()

    def violation(self, replay_obj, no_input=False):
        self.violations.append((replay_obj, no_input))

    def known_finding(self, text, fid=None):
        """A listed finding reproduced by this run. [fid] = its id in known_findings.json."""
        if fid and ("[%s]" % fid) not in text:
            text = "[%s] %s" % (fid, text)
        if text not in self.known:
            self.known.append(text)

    def finish(self, coverage, assumptions, level="proof"):
        for k in self.known:
            print("KNOWN-FINDING: property=%s %s" % (self.prop, k))
        # every listed open finding is reported on every run, also when this run's inputs did
        # not happen to reproduce it (the list is read, never written)
        for f in known_findings(self.prop):
            if not any(f["id"] in k for k in self.known):
                print("KNOWN-FINDING: property=%s [%s] %s (listed in known_findings.json; not reproduced by this run's inputs)"
                      % (self.prop, f["id"], f["what"].split(" (libwallet")[0][:300]))
        for obj, no_input in self.violations[:5]:
            path = write_replay(self.prop, obj)
            print("VIOLATION property=%s replay=%s%s" % (
                self.prop, path, " no-failing-input-found" if no_input else ""))
        write_evidence(self.prop, self.tier, coverage, assumptions, time.time() - self.t0,
                       len(self.violations), level)
        sys.stdout.flush()
        return 1 if self.violations else 0


def proof_stage(prop, verdict, prop_file):
    """Build + audit the Coq side of a property. Returns the proof part of the coverage.
    A failing obligation or audit is reported as a violation (no failing input)."""
    ok, log = coq_make([prop_file + "o"])
    cone = coq_deps(prop_file)
    obligations = count_obligations(cone)
    problems, info = audit(prop_file, load_pins()) if ok else (["coq build failed: " + log[-3000:]], {})
    discharged = obligations if ok and not problems else 0
    if problems:
        verdict.violation({"property": prop, "kind": "proof-obligation-or-audit",
                           "theorem_file": prop_file, "problems": problems}, no_input=True)
    return {
        "obligations": obligations, "discharged": discharged,
        "checker_cmd": "make -C /verif/coq %so (coq_makefile, coqc 8.16.1) + Print Assumptions audit + statement pin" % prop_file,
        "trusted_base": TRUSTED_BASE,
        "theorems": info.get("theorems", []),
        "axioms_reported_by_print_assumptions": info.get("axioms", []),
        "closed_under_global_context": info.get("closed_under_global_context", 0),
        "coq_files": cone,
    }
