#!/bin/bash
# Build the framework from files on disk only (offline): harness (against /repo) + Coq development.
# Every check rebuilds what it needs itself; this only warms the caches, so a part that fails to
# build here does not stop the others (the check that needs it reports it).
cd "$(dirname "$0")"
export CARGO_NET_OFFLINE=true
mkdir -p .cache/work evidence/replay
[ -f harness/Cargo.lock ] || cp /repo/Cargo.lock harness/Cargo.lock
( cd harness && cargo build --offline --bins --keep-going 2>&1 | tail -3 )
python3 -c "import sys; sys.path.insert(0,'lib'); import vlib; vlib.coq_makefile()"
( cd coq && timeout 3000 make -k -j16 2>&1 | grep -v "^COQ\|Closed under" | tail -20 )
echo setup-done
exit 0
