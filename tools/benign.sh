#!/bin/bash
# tools/benign.sh <worktree-with-a-harmless-refactor> <name> <check> ... : run the given checks against it;
# every line printed is an alarm on code where the properties hold (a false alarm).
wt=$1; name=$2; shift 2
for c in "$@"; do
  out=$(/verif/tools/mutrun.sh $wt bn_$name $c 2>&1 | grep -E "^VIOLATION|INFRA-ERROR" | cut -c1-200)
  if [ -n "$out" ]; then echo "$name $c ALARM: $out"; else echo "$name $c quiet"; fi
done
rm -rf /tmp/mh_bn_$name
