#!/bin/bash
# tools/confirm_mut.sh <ID> (MUT_PREFIX=m2 for the second round): in the scratch worktree /tmp/<prefix>_<ID> (patch applied by the sub-agent), confirm that
# the demonstration fails with the patch and passes without it, and that the existing tests still pass with it.
# Writes /tmp/mut_<ID>_out/confirm.log (summary lines start with CONFIRM).
id=$1; pre=${MUT_PREFIX:-mut}; wt=/tmp/${pre}_$id; out=/tmp/${pre}_${id}_out; log=$out/confirm.log
export CARGO_TARGET_DIR=/tmp/${pre}_${id}_target CARGO_NET_OFFLINE=true
cd $wt || exit 2
: > $log
git stash list >/dev/null
if ! git apply -R --check $out/patch.diff 2>/dev/null; then
  git apply $out/patch.diff 2>>$log || { echo "CONFIRM patch-does-not-apply" >> $log; exit 1; }
fi
echo "== demo with patch" >> $log
bash $out/run_demo.sh >> $log 2>&1; w=$?
echo "CONFIRM demo_with_patch_exit=$w" >> $log
echo "== existing tests with patch" >> $log
# the demonstration test must not count as an existing test: move it aside
mkdir -p /tmp/${pre}_${id}_aside; for f in $(git ls-files --others --exclude-standard | grep -E "tests/mut_|mut_c"); do mv $f /tmp/${pre}_${id}_aside/ ; done
timeout 3000 cargo test --offline --workspace --no-fail-fast >> $log 2>&1; t=$?
echo "CONFIRM existing_tests_with_patch_exit=$t failed_lines=$(grep -c 'test result: FAILED' $log)" >> $log
git apply -R $out/patch.diff
echo "== demo without patch" >> $log
bash $out/run_demo.sh >> $log 2>&1; n=$?
echo "CONFIRM demo_without_patch_exit=$n" >> $log
git apply $out/patch.diff
grep CONFIRM $log
