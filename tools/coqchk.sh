#!/bin/bash
# tools/coqchk.sh : re-check every compiled property file (and all it depends on) with Coq's
# independent checker and print the axioms the development relies on. ~2 min.
cd /verif/coq && timeout 3000 coqchk -o -silent -Q theories GW -Q props GWP \
  $(ls props/*.v | sed 's#props/\(.*\)\.v#GWP.\1#') 2>&1 | tail -20
