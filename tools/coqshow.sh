#!/bin/bash
# usage: coqshow.sh file.v LINE  -- prints the goal state just before LINE
f=$1; n=$2
head -n $((n-1)) "$f" > /tmp/_show.v
echo "Show. Abort All." >> /tmp/_show.v
cd /verif/coq && coqc -q -Q theories GW -Q props GWP /tmp/_show.v 2>&1 | tail -${3:-40}
