#!/bin/bash
# tools/mk.sh <target.vo> ... : regenerate _CoqProject/Makefile if the file set changed, then make the targets
cd /verif/coq && python3 -c "import sys; sys.path.insert(0,'/verif/lib'); import vlib; vlib.coq_makefile()" && timeout ${MK_TIMEOUT:-900} make "$@" 2>&1 | tail -${MK_TAIL:-25}
