#!/usr/bin/env python3
"""Assemble /verif/DESIGN.md from design.d/_head.md + design.d/Cxx.md (in order) + design.d/_tail.md."""
import os
root = os.path.dirname(os.path.dirname(os.path.abspath(__file__)))
d = os.path.join(root, "design.d")
parts = [open(os.path.join(d, "_head.md")).read()]
for i in range(1, 21):
    f = os.path.join(d, "C%02d.md" % i)
    if os.path.exists(f):
        parts.append("\n" + open(f).read().rstrip() + "\n")
    else:
        parts.append("\n### C%02d — (check under construction; see MANIFEST.json not_applicable)\n" % i)
parts.append(open(os.path.join(d, "_tail.md")).read())
open(os.path.join(root, "DESIGN.md"), "w").write("".join(parts))
print("DESIGN.md written,", sum(len(p) for p in parts), "bytes")
