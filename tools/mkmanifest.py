#!/usr/bin/env python3
"""Assemble /verif/MANIFEST.json from manifest.d/Cxx.json fragments (one check each);
every property without a fragment is listed under not_applicable with the reason in
manifest.d/not_applicable.json (or a default 'not yet claimed')."""
import json, os, glob
root = os.path.dirname(os.path.dirname(os.path.abspath(__file__)))
props = [json.loads(l)["id"] for l in open(os.path.join(root, "properties.jsonl"))]
CATS = ["exploration", "fault_enumeration", "model_checking", "proof", "translation_validation", "other"]
enabled_file = os.path.join(root, "manifest.d", "enabled.txt")
enabled = set(open(enabled_file).read().split()) if os.path.exists(enabled_file) else None
checks = {}
for f in sorted(glob.glob(os.path.join(root, "manifest.d", "C*.json"))):
    c = json.load(open(f))
    if enabled is not None and c["property_id"] not in enabled:
        continue   # fragment present but the check is not yet released by the lead
    cat = c["level_claimed"]["category"]
    if cat not in CATS:
        c["level_claimed"]["text"] = "[%s] %s" % (cat, c["level_claimed"]["text"])
        c["level_claimed"]["category"] = "proof" if cat.startswith("proof") else "other"
    checks[c["property_id"]] = c
na_file = os.path.join(root, "manifest.d", "not_applicable.json")
na_reasons = json.load(open(na_file)) if os.path.exists(na_file) else {}
hooks_commits = json.load(open(os.path.join(root, "manifest.d", "hooks.json")))
m = {
    "version": 1,
    "setup_cmd": "./setup.sh",
    "hooks": hooks_commits,
    "engines": [{"name": "coq-model+correspondence", "path": "/verif/check",
                 "serves_properties": sorted(checks),
                 "kind_free_text": "hand-written executable Gallina models + theorems (Coq 8.16.1), tied to /repo by a differential correspondence harness (Rust crate with path deps on /repo, rebuilt every run) evaluated against vm_compute inside Coq, plus property oracles on the implementation"}],
    "checks": [checks[p] for p in props if p in checks],
    "notes": "see DESIGN.md; known findings in known_findings.json; seeded mutations in seeded/",
    "not_applicable": [{"property_id": p, "reason": na_reasons.get(p, "not yet claimed in this commit: model and check under construction (DESIGN.md section 6); not a statement that the technique cannot apply")}
                       for p in props if p not in checks],
}
json.dump(m, open(os.path.join(root, "MANIFEST.json"), "w"), indent=1)
print("checks:", sorted(checks), "not_applicable:", [x["property_id"] for x in m["not_applicable"]])
