#!/bin/bash
# tools/mutrun.sh <repo-worktree> <name> <check args...>
# Run a check against a scratch copy of the harness whose path dependencies point at <repo-worktree>
# (a mutated checkout) instead of /repo, with its own target/evidence/work dirs under /tmp/mh_<name>.
wt=$1; name=$2; shift 2
d=/tmp/mh_$name
mkdir -p $d/evidence $d/work
rsync -a --delete --exclude target /verif/harness/ $d/harness/
sed -i "s#path = \"/repo/#path = \"$wt/#" $d/harness/Cargo.toml
sed -i "s#target-dir = .*#target-dir = \"$d/target\"#" $d/harness/.cargo/config.toml
cp $wt/Cargo.lock $d/harness/Cargo.lock
cd /verif && VERIF_HARNESS_DIR=$d/harness VERIF_TARGET_DIR=$d/target VERIF_EVID_DIR=$d/evidence VERIF_WORK_DIR=$d/work ./check "$@"
