#!/usr/bin/env python3
"""tools/pin.py Cxx — record the SHA-256 of coq/props/Cxx.v (statement pin)."""
import hashlib, os, sys
root = os.path.dirname(os.path.dirname(os.path.abspath(__file__)))
for p in sys.argv[1:]:
    h = hashlib.sha256(open(os.path.join(root, "coq", "props", p + ".v"), "rb").read()).hexdigest()
    open(os.path.join(root, "pins", p + ".sha256"), "w").write(h + "\n")
    print(p, h)
