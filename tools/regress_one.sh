#!/bin/bash
# tools/regress_one.sh <seeded-dir-name>: one stored seeded change against the first check recorded as catching it
d=$1; cd /verif
chk=$(python3 -c "import json;print(json.load(open('/verif/seeded/$d/meta.json'))['caught_by_checks'][0])")
wt=/tmp/rg_$d
rm -rf $wt; git -C /repo worktree add -q $wt HEAD 2>/dev/null || { echo "$d NOWORKTREE"; exit; }
if ! git -C $wt apply /verif/seeded/$d/patch.diff 2>/dev/null; then
  echo "$d $chk NOAPPLY"
else
  n=$(tools/mutrun.sh $wt rg_$d $chk 2>&1 | grep -c "^VIOLATION")
  if [ "$n" -gt 0 ]; then echo "$d $chk CAUGHT ($n violation lines)"; else echo "$d $chk MISSED"; fi
fi
rm -rf /tmp/mh_rg_$d
git -C /repo worktree remove --force $wt 2>/dev/null; git -C /repo worktree prune
