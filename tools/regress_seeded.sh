#!/bin/bash
# tools/regress_seeded.sh [dir ...]: run, for every stored seeded change (default: all of /verif/seeded/*),
# the first check recorded as catching it against a scratch worktree of /repo HEAD with the change applied.
# Prints one line per change: CAUGHT / MISSED / NOAPPLY. Worktrees and harness copies are removed.
cd /verif
dirs="$@"; [ -z "$dirs" ] && dirs=$(ls seeded)
for d in $dirs; do
  chk=$(python3 -c "import json;print(json.load(open('/verif/seeded/$d/meta.json'))['caught_by_checks'][0])")
  wt=/tmp/rg_$d
  rm -rf $wt; git -C /repo worktree add -q $wt HEAD || { echo "$d NOWORKTREE"; continue; }
  if ! git -C $wt apply /verif/seeded/$d/patch.diff 2>/dev/null; then
    echo "$d $chk NOAPPLY (the patch no longer applies at /repo HEAD)"
  else
    n=$(tools/mutrun.sh $wt rg_$d $chk 2>&1 | grep -c "^VIOLATION")
    if [ "$n" -gt 0 ]; then echo "$d $chk CAUGHT ($n violation lines)"; else echo "$d $chk MISSED"; fi
  fi
  rm -rf /tmp/mh_rg_$d
  git -C /repo worktree remove --force $wt 2>/dev/null; git -C /repo worktree prune
done
