#!/bin/bash
# tools/retest.sh <ID> <check> [prefix]: re-create a scratch worktree from a stored seeded patch
# (/tmp/<prefix>_<ID>_out/patch.diff or /verif/seeded/<dir>/patch.diff), run the check against it, clean up.
id=$1; chk=$2; pre=${3:-m2}
patch=/tmp/${pre}_${id}_out/patch.diff
[ -f "$patch" ] || patch=/verif/seeded/${id}_${pre}/patch.diff
[ -f "$patch" ] || patch=/verif/seeded/${id}/patch.diff
wt=/tmp/rt_${pre}_${id}
rm -rf $wt; git -C /repo worktree add -q $wt HEAD || exit 2
git -C $wt apply $patch || { echo "patch does not apply at HEAD"; git -C /repo worktree remove --force $wt; exit 2; }
/verif/tools/mutrun.sh $wt rt_${pre}_${id} $chk 2>&1 | grep -E "VIOLATION|INFRA|KNOWN" | cut -c1-220
python3 - <<EOF
import json,glob
for f in sorted(glob.glob('/tmp/mh_rt_${pre}_${id}/evidence/replay/*.json')):
    try:
        r=json.load(open(f)); print('  replay', f.split('/')[-1], r.get('kind'), str(r.get('what') or r.get('first_divergence',{}).get('what') or r.get('problems'))[:300])
    except Exception as e: print('  replay', f, e)
EOF
rm -rf /tmp/mh_rt_${pre}_${id}
git -C /repo worktree remove --force $wt; git -C /repo worktree prune
