#!/usr/bin/env python3
"""tools/store_seeded.py <ID> <check1,check2> "<what the checks reported>"
Copy a confirmed seeded change from /tmp/mut_<ID>_out into /verif/seeded/<ID>/ with a meta.json
(which property, what it needs to manifest, what was run by the lead to confirm it)."""
import json, os, shutil, sys
mid, checks, reported = sys.argv[1], sys.argv[2].split(","), sys.argv[3]
pre = os.environ.get("MUT_PREFIX", "mut")
src = "/tmp/%s_%s_out" % (pre, mid)
dst = os.path.join(os.path.dirname(os.path.dirname(os.path.abspath(__file__))), "seeded",
                   mid if pre == "mut" else "%s_%s" % (mid, pre))
os.makedirs(dst, exist_ok=True)
for f in ("patch.diff", "run_demo.sh"):
    shutil.copy(os.path.join(src, f), os.path.join(dst, f))
if os.path.isdir(os.path.join(dst, "demo")):
    shutil.rmtree(os.path.join(dst, "demo"))
shutil.copytree(os.path.join(src, "demo"), os.path.join(dst, "demo"))
agent = json.load(open(os.path.join(src, "meta.json")))
conf = [l.strip() for l in open(os.path.join(src, "confirm.log")) if l.startswith("CONFIRM")] \
    if os.path.exists(os.path.join(src, "confirm.log")) else []
meta = {
    "property": agent.get("property", mid),
    "breaks": agent.get("what_breaks", "")[:600],
    "needs_to_manifest": agent.get("needs_to_manifest", ""),
    "produced_by": "independent sub-agent given only the property text and a scratch worktree of /repo",
    "round": {"mut": 1, "m2": 2, "m3": 3, "m4": 4, "m5": 5}.get(pre, 0),
    "confirmed_by_lead": "tools/confirm_mut.sh %s in the scratch worktree: demonstration run with the patch, the whole "
                         "workspace test suite with the patch (demonstration moved aside), demonstration without the patch" % mid,
    "confirm_log": conf,
    "what_i_ran": "tools/mutrun.sh /tmp/%s_%s %s %s (the checks against a scratch copy of the harness whose path "
                  "dependencies point at the patched worktree): %s" % (pre, mid, mid, " ".join(checks), reported),
    "caught_by_checks": checks,
    "agent_meta": agent,
}
json.dump(meta, open(os.path.join(dst, "meta.json"), "w"), indent=1)
print("stored", dst, conf)
